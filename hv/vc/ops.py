"""Value operations of the E1 interpreter (Python semantics of attribute access, indexing,
operators, comparisons, container methods) over concrete and symbolic values.

Ledger: A-py (evaluation order, dispatch), A-bi (list/dict/tuple method semantics incl.
list.insert clamping, negative indices, exceptions raised)."""
import ast

import z3

from . import smt
from .values import (Sym, SInt, SBool, SVal, SKey, SSeq, SView, SMap, SSet, SObj, ClassRef, Closure, BoundMethod,
                     Builtin, AbstractCallable, PyExc, OutOfSubset, LazyDict, unmap)

NotImpl = NotImplemented


def has_sym(v, depth=0):
    if isinstance(v, (Sym, Closure, BoundMethod, ClassRef, Builtin, AbstractCallable)):
        return True
    if depth > 4:
        return False
    if isinstance(v, (list, tuple, set, frozenset)):
        return any(has_sym(x, depth + 1) for x in v)
    if isinstance(v, LazyDict) and v.sym is not None:
        return True
    if isinstance(v, dict):
        return any(has_sym(k, depth + 1) or has_sym(x, depth + 1) for k, x in v.items())
    if isinstance(v, slice):
        return has_sym(v.start) or has_sym(v.stop) or has_sym(v.step)
    return False


class NativeMethod(object):
    def __init__(self, obj, name):
        self.obj = obj
        self.name = name


class SuperProxy(object):
    def __init__(self, cls, selfv):
        self.cls = cls
        self.selfv = selfv


class Ops(object):
    def __init__(self, world):
        self.world = world

    # ------------------------------------------------------------ sequences
    def seq_of(self, it, v):
        """python tuple/list of scalars -> SSeq (when a symbolic op needs it)."""
        items = list(v)
        if not items:
            raise OutOfSubset('cannot infer element sort of empty sequence')
        t0 = it.as_term(items[0])
        es = t0.sort()
        arr = z3.K(z3.IntSort(), t0)
        for i, x in enumerate(items):
            arr = z3.Store(arr, i, it.as_term(x, es))
        return SSeq(z3.IntVal(len(items)), arr, es, mutable=isinstance(v, list), kind='list' if isinstance(v, list) else 'tuple')

    def seq_elem(self, it, seq, i):
        if isinstance(seq, SSeq):
            return it.wrap(z3.Select(seq.arr, i))
        return seq.elem(it, i)

    def norm_index(self, it, seq, i, exc='IndexError'):
        """python index -> in-range z3 index (raises IndexError on the out-of-range branch)."""
        n = seq.length
        if isinstance(i, bool) or not isinstance(i, (int, SInt)):
            if isinstance(i, SBool):
                raise OutOfSubset('bool index')
            it.raise_('TypeError', 'list indices must be integers')
        t = it.as_term(i)
        idx = z3.If(t < 0, t + n, t)
        if not it.ctx.branch(z3.And(idx >= 0, idx < n)):
            it.raise_(exc, 'index out of range')
        return z3.simplify(idx)

    def seq_slice(self, it, seq, sl):
        if sl.step is not None and sl.step != 1:
            raise OutOfSubset('slice step')
        n = seq.length

        def clamp(v, default):
            if v is None:
                return default
            t = it.as_term(v)
            t = z3.If(t < 0, t + n, t)
            return z3.If(t < 0, 0, z3.If(t > n, n, t))
        lo = clamp(sl.start, z3.IntVal(0))
        hi = clamp(sl.stop, n)
        ln = z3.If(hi - lo < 0, 0, hi - lo)
        j = z3.Int('j!sl')
        arr = z3.Lambda([j], z3.Select(seq.arr, lo + j))
        return SSeq(z3.simplify(ln), arr, seq.esort, mutable=seq.mutable, kind=seq.kind), lo, hi

    def seq_concat(self, it, a, b, kind=None, mutable=None):
        j = z3.Int('j!cat')
        arr = z3.Lambda([j], z3.If(j < a.length, z3.Select(a.arr, j), z3.Select(b.arr, j - a.length)))
        return SSeq(z3.simplify(a.length + b.length), arr, a.esort,
                    mutable=a.mutable if mutable is None else mutable, kind=kind or a.kind)

    def seq_contains(self, it, seq, x):
        t = it.as_term(x, seq.esort)
        j = z3.Int('j!in')
        return z3.Exists([j], z3.And(j >= 0, j < seq.length, z3.Select(seq.arr, j) == t))

    def seq_index(self, it, seq, x):
        t = it.as_term(x, seq.esort)
        if not it.ctx.branch(self.seq_contains(it, seq, x)):
            it.raise_('ValueError', 'x not in list')
        k = it.ctx.fresh('idx', z3.IntSort())
        j = z3.Int('j!ix')
        it.ctx.assume(z3.And(k >= 0, k < seq.length, z3.Select(seq.arr, k) == t,
                             z3.ForAll([j], z3.Implies(z3.And(j >= 0, j < k), z3.Select(seq.arr, j) != t))))
        return SInt(k)

    def seq_delete_at(self, it, seq, idx):
        j = z3.Int('j!del')
        seq.arr = z3.Lambda([j], z3.If(j < idx, z3.Select(seq.arr, j), z3.Select(seq.arr, j + 1)))
        seq.length = z3.simplify(seq.length - 1)

    def seq_insert_at(self, it, seq, idx, t):
        j = z3.Int('j!ins')
        seq.arr = z3.Lambda([j], z3.If(j < idx, z3.Select(seq.arr, j),
                                       z3.If(j == idx, t, z3.Select(seq.arr, j - 1))))
        seq.length = z3.simplify(seq.length + 1)

    def seq_method(self, it, seq, name):
        ops = self

        def need_mut():
            if not seq.mutable:
                it.raise_('AttributeError', "'tuple' object has no attribute %r" % name)

        def m_append(it, args, kw):
            need_mut()
            ops.seq_insert_at(it, seq, seq.length, it.as_term(args[0], seq.esort))

        def m_insert(it, args, kw):
            need_mut()
            i = it.as_term(args[0])
            n = seq.length
            idx = z3.If(i < 0, z3.If(i + n < 0, 0, i + n), z3.If(i > n, n, i))
            ops.seq_insert_at(it, seq, z3.simplify(idx), it.as_term(args[1], seq.esort))

        def m_index(it, args, kw):
            if len(args) != 1 or kw:
                raise OutOfSubset('list.index with start/stop')
            return ops.seq_index(it, seq, args[0])

        def m_remove(it, args, kw):
            need_mut()
            k = ops.seq_index(it, seq, args[0])
            ops.seq_delete_at(it, seq, k.term)

        def m_pop(it, args, kw):
            need_mut()
            if not it.ctx.branch(seq.length > 0):
                it.raise_('IndexError', 'pop from empty list')
            idx = ops.norm_index(it, seq, args[0] if args else -1)
            v = it.wrap(z3.Select(seq.arr, idx))
            ops.seq_delete_at(it, seq, idx)
            return v

        def m_reverse(it, args, kw):
            need_mut()
            if args or kw:
                it.raise_('TypeError', 'reverse() takes no arguments')
            j = z3.Int('j!rev')
            seq.arr = z3.Lambda([j], z3.Select(seq.arr, seq.length - 1 - j))

        def m_sort(it, args, kw):
            need_mut()
            h = it.world.hooks.get('list_sort')
            if h is None:
                raise OutOfSubset('list.sort without model')
            h(it, seq, args, kw)

        def m_extend(it, args, kw):
            need_mut()
            other = ops.to_seq(it, args[0], seq.esort)
            new = ops.seq_concat(it, seq, other)
            seq.arr, seq.length = new.arr, new.length

        def m_copy(it, args, kw):
            return seq.copy()

        def m_count(it, args, kw):
            raise OutOfSubset('list.count on symbolic list')

        def m_clear(it, args, kw):
            need_mut()
            seq.length = z3.IntVal(0)
        tbl = {'append': m_append, 'insert': m_insert, 'index': m_index, 'remove': m_remove, 'pop': m_pop,
               'reverse': m_reverse, 'sort': m_sort, 'extend': m_extend, 'copy': m_copy, 'count': m_count,
               'clear': m_clear}
        if name not in tbl:
            it.raise_('AttributeError', 'list has no attribute %r' % name)
        return Builtin('list.' + name, tbl[name])

    def to_seq(self, it, v, esort=None):
        if isinstance(v, SSeq):
            return v
        if isinstance(v, (list, tuple)):
            if not v and esort is not None:
                return SSeq(z3.IntVal(0), z3.K(z3.IntSort(), it.ctx.fresh('dflt', esort)), esort,
                            mutable=isinstance(v, list), kind='list' if isinstance(v, list) else 'tuple')
            return self.seq_of(it, v)
        raise OutOfSubset('not a sequence: %r' % (v,))

    # ------------------------------------------------------------ dicts
    def map_get(self, it, m, k, raise_key=True):
        kt = it.as_term(k, m.ksort)
        if it.ctx.branch(z3.Select(m.dom, kt)):
            return True, it.wrap(z3.Select(m.val, kt))
        return False, None

    def map_set(self, it, m, k, v):
        kt = it.as_term(k, m.ksort)
        vt = it.as_term(v, m.vsort)
        m.size = z3.simplify(z3.If(z3.Select(m.dom, kt), m.size, m.size + 1))
        m.dom = z3.Store(m.dom, kt, True)
        m.val = z3.Store(m.val, kt, vt)

    def map_del(self, it, m, k):
        kt = it.as_term(k, m.ksort)
        m.size = z3.simplify(m.size - 1)
        m.dom = z3.Store(m.dom, kt, False)

    def map_method(self, it, m, name):
        ops = self

        def m_get(it, args, kw):
            ok, v = ops.map_get(it, m, args[0])
            if ok:
                return v
            return args[1] if len(args) > 1 else kw.get('default', None)

        def m_pop(it, args, kw):
            ok, v = ops.map_get(it, m, args[0])
            if ok:
                ops.map_del(it, m, args[0])
                return v
            if len(args) > 1:
                return args[1]
            it.raise_('KeyError', args[0])

        def m_clear(it, args, kw):
            m.dom = z3.K(m.ksort, z3.BoolVal(False))
            m.size = z3.IntVal(0)

        def m_view(it, args, kw):
            h = it.world.hooks.get('map_' + name)
            if h is None:
                raise OutOfSubset('dict.%s() on symbolic dict without an order model' % name)
            return h(it, m)
        def m_copy(it, args, kw):
            if getattr(m, 'is_set', False):
                return SSet(m.dom, m.size, m.ksort)
            return SMap(m.dom, m.val, m.size, m.ksort, m.vsort)

        def m_discard(it, args, kw):
            kt = it.as_term(args[0], m.ksort)
            m.size = z3.simplify(z3.If(z3.Select(m.dom, kt), m.size - 1, m.size))
            m.dom = z3.Store(m.dom, kt, False)

        def m_add(it, args, kw):
            kt = it.as_term(args[0], m.ksort)
            m.size = z3.simplify(z3.If(z3.Select(m.dom, kt), m.size, m.size + 1))
            m.dom = z3.Store(m.dom, kt, True)
        if getattr(m, 'is_set', False):
            tbl = {'copy': m_copy, 'discard': m_discard, 'add': m_add, 'clear': m_clear}
        else:
            tbl = {'get': m_get, 'pop': m_pop, 'clear': m_clear, 'keys': m_view, 'values': m_view, 'items': m_view, 'copy': m_copy}
        if name not in tbl:
            raise OutOfSubset('dict.%s on symbolic dict' % name)
        return Builtin('dict.' + name, tbl[name])

    # ------------------------------------------------------------ attribute access
    def getattr(self, it, obj, name):
        obj = unmap(obj)
        w = self.world
        if isinstance(obj, SObj):
            if name in obj.fields:
                return obj.fields[name]
            if name == '__class__':
                return obj.cls
            c, m = obj.cls.find_method(name)
            if m is not None and name in ('items', 'keys', 'values') and c.module is not None and c.module.name.startswith('stdlib.'):
                # A-bi-mappingviews: Mapping.keys()/items()/values() iterate iter(self) and self[key]
                def view(it2, args, kw, obj=obj, name=name):
                    ks = self.iter_view(it2, obj)
                    if not isinstance(ks, list):
                        if name == 'keys':
                            return ks
                        if isinstance(ks, (SSeq, SView)):
                            src = ks
                            if name == 'values':
                                return SView(src.length, lambda it3, i: self.getitem(it3, obj, self.seq_elem(it3, src, i)))
                            return SView(src.length, lambda it3, i: (self.seq_elem(it3, src, i), self.getitem(it3, obj, self.seq_elem(it3, src, i))))
                        raise OutOfSubset('mapping view over %r' % (ks,))
                    from hv.vc.values import KeysList, ValuesList
                    if name == 'keys':
                        return KeysList(ks)
                    if name == 'values':
                        return ValuesList([self.getitem(it2, obj, k) for k in ks])
                    return KeysList([(k, self.getitem(it2, obj, k)) for k in ks])
                return Builtin('Mapping.' + name, view)
            if m is not None:
                decs = [ast.unparse(d) for d in m.decorator_list]
                clo = w.method_closure(c, m)
                if 'property' in decs:
                    return it.call_closure(clo, [obj], {})
                if 'staticmethod' in decs:
                    return clo
                if 'classmethod' in decs:
                    return BoundMethod(obj.cls, clo)
                return BoundMethod(obj, clo)
            h = w.hooks.get('obj_getattr')
            if h is not None:
                r = h(it, obj, name)
                if r is not NotImpl:
                    return r
            ca = w.class_attr(it, obj.cls, name)
            if ca is not NotImpl:
                return ca
            it.raise_('AttributeError', '%s has no attribute %s' % (obj.cls.name, name))
        if isinstance(obj, SuperProxy):
            mro = obj.selfv.cls.mro() if isinstance(obj.selfv, SObj) else obj.cls.mro()
            start = mro.index(obj.cls) + 1
            for c in mro[start:]:
                if c.info is not None and name in c.info.methods:
                    return BoundMethod(obj.selfv, w.method_closure(c, c.info.methods[name]))
            if name == '__init__':
                return Builtin('object.__init__', lambda it, a, k: None)
            h = w.hooks.get('super_getattr')
            if h is not None:
                r = h(it, obj, name)
                if r is not NotImpl:
                    return r
            it.raise_('AttributeError', 'super has no %s' % name)
        if isinstance(obj, ClassRef):
            if name == '__name__':
                return obj.name
            c, m = obj.find_method(name)
            if m is not None:
                decs = [ast.unparse(d) for d in m.decorator_list]
                clo = w.method_closure(c, m)
                if 'classmethod' in decs:
                    return BoundMethod(obj, clo)
                return clo
            ca = w.class_attr(it, obj, name)
            if ca is not NotImpl:
                return ca
            it.raise_('AttributeError', 'class %s has no attribute %s' % (obj.name, name))
        if isinstance(obj, SSeq):
            return self.seq_method(it, obj, name)
        if isinstance(obj, SMap):
            return self.map_method(it, obj, name)
        if isinstance(obj, Sym) or type(obj).__name__ in ('MatchObj', 'Poison', 'ParsedDT', 'Conv', 'CharMatch'):
            h = w.hooks.get('val_getattr')
            if h is not None:
                r = h(it, obj, name)
                if r is not NotImpl:
                    return r
            raise OutOfSubset('attribute %s of opaque value' % name)
        if isinstance(obj, PyExc):
            if name in getattr(obj, 'attrs', {}):
                return obj.attrs[name]
            if name == 'args':
                return obj.args_
            raise OutOfSubset('exception attribute %s' % name)
        if isinstance(obj, w.Namespace):
            return obj.get(it, name)
        # concrete python object
        if isinstance(obj, (list, dict, tuple, str, set)):
            if not hasattr(obj, name):
                it.raise_('AttributeError', '%s has no attribute %s' % (type(obj).__name__, name))
            return NativeMethod(obj, name)
        if obj is None:
            it.raise_('AttributeError', "'NoneType' object has no attribute %r" % name)
        try:
            return getattr(obj, name)
        except AttributeError:
            it.raise_('AttributeError', '%r has no attribute %s' % (type(obj).__name__, name))

    def setattr(self, it, obj, name, v):
        if isinstance(obj, SObj):
            obj.fields[name] = v
            return
        raise OutOfSubset('setattr on %r' % (obj,))

    # ------------------------------------------------------------ subscripts
    def getitem(self, it, obj, key):
        obj = unmap(obj)
        if isinstance(obj, SObj):
            return it.call_method(obj, '__getitem__', [key])
        if isinstance(obj, SSeq):
            if isinstance(key, slice):
                return self.seq_slice(it, obj, key)[0]
            idx = self.norm_index(it, obj, key)
            return it.wrap(z3.Select(obj.arr, idx))
        if isinstance(obj, SMap):
            ok, v = self.map_get(it, obj, key)
            if not ok:
                it.raise_('KeyError', key)
            return v
        if isinstance(obj, Sym):
            h = self.world.hooks.get('val_getitem')
            if h is not None:
                return h(it, obj, key)
            raise OutOfSubset('subscript of opaque value')
        if isinstance(obj, (list, tuple, str)):
            if isinstance(key, slice):
                if has_sym(key):
                    raise OutOfSubset('symbolic slice of concrete sequence')
                return obj[key]
            if isinstance(key, SInt):
                # symbolic index into a concrete sequence: case split
                n = len(obj)
                for i in range(-n, n):
                    if it.ctx.branch(key.term == i):
                        return obj[i]
                it.raise_('IndexError', 'index out of range')
            if isinstance(key, bool) or not isinstance(key, int):
                it.raise_('TypeError', 'indices must be integers')
            try:
                return obj[key]
            except IndexError:
                it.raise_('IndexError', 'index out of range')
        if isinstance(obj, dict):
            if isinstance(key, Sym):
                for k in obj:
                    if it.truth(self.compare(it, 'Eq', k, key)):
                        return obj[k]
                it.raise_('KeyError', key)
            try:
                return obj[key]
            except KeyError:
                it.raise_('KeyError', key)
            except TypeError:
                it.raise_('TypeError', 'unhashable')
        if has_sym(key):
            raise OutOfSubset('subscript %r[%r]' % (obj, key))
        try:
            return obj[key]
        except (KeyError, IndexError, TypeError) as e:
            it.raise_(type(e).__name__, str(e))

    def setitem(self, it, obj, key, v):
        obj = unmap(obj)
        if isinstance(obj, SObj):
            it.call_method(obj, '__setitem__', [key, v])
            return
        if isinstance(obj, SSeq):
            if not obj.mutable:
                it.raise_('TypeError', "'tuple' object does not support item assignment")
            if isinstance(key, slice):
                raise OutOfSubset('slice assignment')
            idx = self.norm_index(it, obj, key, exc='IndexError')
            obj.arr = z3.Store(obj.arr, idx, it.as_term(v, obj.esort))
            return
        if isinstance(obj, SMap):
            self.map_set(it, obj, key, v)
            return
        if isinstance(obj, (SVal, SKey)):
            h = self.world.hooks.get('val_setitem')
            if h is not None:
                return h(it, obj, key, v)
            raise OutOfSubset('item assignment on opaque value')
        if isinstance(obj, list):
            if isinstance(key, Sym):
                raise OutOfSubset('symbolic index store into concrete list')
            try:
                obj[key] = v
            except IndexError:
                it.raise_('IndexError', 'list assignment index out of range')
            return
        if isinstance(obj, dict):
            if isinstance(key, Sym):
                if isinstance(obj, LazyDict) and len(obj) == 0 and isinstance(key, (SKey, SVal)) and isinstance(v, (SKey, SVal)):
                    ks, vs = key.term.sort(), v.term.sort()
                    obj.sym = SMap(z3.K(ks, z3.BoolVal(False)), z3.K(ks, it.ctx.fresh('dflt', vs)), z3.IntVal(0), ks, vs)
                    self.map_set(it, obj.sym, key, v)
                    return
                for k in list(obj):
                    if it.truth(self.compare(it, 'Eq', k, key)):
                        obj[k] = v
                        return
                if isinstance(key, SObj):
                    obj[key] = v          # an object key unequal to every present key (A-bi-dict: hash/eq lookup)
                    return
                raise OutOfSubset('symbolic key stored into concrete dict')
            obj[key] = v
            return
        raise OutOfSubset('setitem on %r' % (obj,))

    def delitem(self, it, obj, key):
        obj = unmap(obj)
        if isinstance(obj, SObj):
            it.call_method(obj, '__delitem__', [key])
            return
        if isinstance(obj, SSeq):
            if isinstance(key, slice):
                _, lo, hi = self.seq_slice(it, obj, key)
                cnt = z3.If(hi - lo < 0, 0, hi - lo)
                j = z3.Int('j!dsl')
                obj.arr = z3.Lambda([j], z3.If(j < lo, z3.Select(obj.arr, j), z3.Select(obj.arr, j + cnt)))
                obj.length = z3.simplify(obj.length - cnt)
                return
            idx = self.norm_index(it, obj, key)
            self.seq_delete_at(it, obj, idx)
            return
        if isinstance(obj, SMap):
            ok, _ = self.map_get(it, obj, key)
            if not ok:
                it.raise_('KeyError', key)
            self.map_del(it, obj, key)
            return
        if isinstance(obj, (list, dict)) and not has_sym(key):
            try:
                del obj[key]
            except (KeyError, IndexError) as e:
                it.raise_(type(e).__name__, str(e))
            return
        if isinstance(obj, dict):
            for k in list(obj):
                if it.truth(self.compare(it, 'Eq', k, key)):
                    del obj[k]
                    return
            it.raise_('KeyError', key)
        raise OutOfSubset('delitem on %r' % (obj,))

    # ------------------------------------------------------------ iteration
    def iter_view(self, it, v):
        v = unmap(v)
        """-> python list (concrete length) | SSeq | SView | None"""
        if isinstance(v, (SSeq, SView)):
            return v
        if isinstance(v, (list, tuple)):
            return list(v)
        if isinstance(v, dict):
            return list(v.keys())
        if isinstance(v, (range, str)) or type(v).__name__ in ('dict_keys', 'dict_values', 'dict_items', 'odict_keys', 'odict_values', 'odict_items'):
            return list(v)
        if isinstance(v, (set, frozenset)):
            if has_sym(v):
                h = self.world.hooks.get('set_order')
                if h is None:
                    raise OutOfSubset('iteration order of a set of symbolic values')
                return h(it, v)
            return sorted(v, key=repr)
        if isinstance(v, SObj):
            c, m = v.cls.find_method('__iter__')
            if m is not None and not any(isinstance(n, (ast.Yield, ast.YieldFrom)) for n in ast.walk(m)):
                return self.iter_view(it, it.call_method(v, '__iter__', []))
            c, m = v.cls.find_method('__getitem__')
            c2, m2 = v.cls.find_method('__len__')
            if m is not None and m2 is not None:
                # old-style sequence iteration protocol (Sequence.__iter__ is a generator: A-bi-seqiter)
                n = it.call_method(v, '__len__', [])
                if isinstance(n, int):
                    return [it.call_method(v, '__getitem__', [i]) for i in range(n)]
                obj = v
                return SView(it.as_term(n), lambda it2, i: it2.call_method(obj, '__getitem__', [it2.wrap(i)]))
        if isinstance(v, SMap):
            h = self.world.hooks.get('map_keys')
            if h is not None:
                return self.iter_view(it, h(it, v))
        h = self.world.hooks.get('iter')
        if h is not None:
            return h(it, v)
        return None

    def unpack(self, it, v, n):
        if isinstance(v, (tuple, list)):
            if len(v) != n:
                it.raise_('ValueError', 'unpack: expected %d values' % n)
            return list(v)
        if isinstance(v, SSeq):
            if not it.ctx.branch(v.length == n):
                it.raise_('ValueError', 'unpack: expected %d values' % n)
            return [it.wrap(z3.Select(v.arr, i)) for i in range(n)]
        h = self.world.hooks.get('unpack')
        if h is not None:
            return h(it, v, n)
        raise OutOfSubset('unpack of %r' % (v,))

    def super_proxy(self, it, cls, selfv):
        return SuperProxy(cls, selfv)

    def comprehension(self, it, node, kind):
        if len(node.generators) != 1:
            raise OutOfSubset('nested comprehension')
        g = node.generators[0]
        src = self.iter_view(it, it.eval(g.iter))
        fr = it.frames[-1]
        saved = dict(fr.env)
        try:
            if isinstance(src, list):
                out = [] if kind == 'list' else {}
                for x in src:
                    it.assign(g.target, x)
                    if all(it.truth(it.eval(c)) for c in g.ifs):
                        if kind == 'list':
                            out.append(it.eval(node.elt))
                        else:
                            out[it.eval(node.key)] = it.eval(node.value)
                return out
            if src is None or g.ifs or kind != 'list':
                raise OutOfSubset('comprehension over symbolic data with filter / dict result')
            j = z3.Int('j!comp')
            ntrace = len(it.ctx.trace)
            it.assign(g.target, self.seq_elem(it, src, j))
            r = it.eval(node.elt)
            if len(it.ctx.trace) != ntrace:
                raise OutOfSubset('comprehension body branches on symbolic data')
            t = it.as_term(r)
            return SSeq(z3.If(src.length < 0, 0, src.length), z3.Lambda([j], t), t.sort(), mutable=True, kind='list')
        finally:
            fr.env.clear()
            fr.env.update(saved)

    # ------------------------------------------------------------ operators
    def unop(self, it, op, v):
        if isinstance(v, SObj):
            name = {'USub': '__neg__', 'UAdd': '__pos__', 'Invert': '__invert__'}[op]
            return it.call_method(v, name, [])
        if isinstance(v, SInt) or (isinstance(v, int) and not isinstance(v, bool)):
            t = it.as_term(v)
            if op == 'USub':
                return it.wrap(-t)
            if op == 'UAdd':
                return it.wrap(t)
        h = self.world.hooks.get('unop')
        if h is not None:
            r = h(it, op, v)
            if r is not NotImpl:
                return r
        if not has_sym(v):
            return {'USub': lambda x: -x, 'UAdd': lambda x: +x, 'Invert': lambda x: ~x}[op](v)
        raise OutOfSubset('unary %s on %r' % (op, v))

    BIN_DUNDER = {'Add': 'add', 'Sub': 'sub', 'Mult': 'mul', 'Div': 'truediv', 'FloorDiv': 'floordiv', 'Mod': 'mod',
                  'Pow': 'pow', 'LShift': 'lshift', 'RShift': 'rshift', 'BitAnd': 'and', 'BitOr': 'or', 'BitXor': 'xor',
                  'MatMult': 'matmul'}

    def binop(self, it, op, a, b, inplace=False):
        h = self.world.hooks.get('binop')
        if h is not None:
            r = h(it, op, a, b)
            if r is not NotImpl:
                return r
        if op == 'Mod' and isinstance(a, str) and has_sym(b):
            return '<formatted message>'       # str % args: text of messages is not modelled (A-py-format: never raises for %s/%r)
        # user-defined operator methods (A-disp: left operand first, reflected on NotImplemented)
        if isinstance(a, SObj) or isinstance(b, SObj):
            d = self.BIN_DUNDER[op]
            if isinstance(a, SObj):
                c, m = a.cls.find_method('__%s__' % d)
                if m is not None:
                    r = it.call_method(a, '__%s__' % d, [b])
                    if r is not NotImpl:
                        return r
            if isinstance(b, SObj):
                c, m = b.cls.find_method('__r%s__' % d)
                if m is not None:
                    r = it.call_method(b, '__r%s__' % d, [a])
                    if r is not NotImpl:
                        return r
            it.raise_('TypeError', 'unsupported operand type(s) for %s' % op)
        h = self.world.hooks.get('binop')
        if h is not None:
            r = h(it, op, a, b)
            if r is not NotImpl:
                return r
        ints = lambda x: isinstance(x, SInt) or (isinstance(x, int) and not isinstance(x, bool))
        if (isinstance(a, SInt) or isinstance(b, SInt)) and ints(a) and ints(b):
            x, y = it.as_term(a), it.as_term(b)
            if op == 'Add':
                return it.wrap(x + y)
            if op == 'Sub':
                return it.wrap(x - y)
            if op == 'Mult':
                return it.wrap(x * y)
            if op in ('FloorDiv', 'Mod'):
                if not it.ctx.branch(y != 0):
                    it.raise_('ZeroDivisionError')
                if not (isinstance(b, int) and b > 0):
                    raise OutOfSubset('floor division by a symbolic / non-positive divisor')
                return it.wrap(x / y if op == 'FloorDiv' else x % y)
            raise OutOfSubset('int operator %s on symbolic ints' % op)
        if op == 'Add' and (isinstance(a, SSeq) or isinstance(b, SSeq)):
            if isinstance(a, (SSeq, list, tuple)) and isinstance(b, (SSeq, list, tuple)):
                ka = a.kind if isinstance(a, SSeq) else ('list' if isinstance(a, list) else 'tuple')
                kb = b.kind if isinstance(b, SSeq) else ('list' if isinstance(b, list) else 'tuple')
                if ka != kb:
                    it.raise_('TypeError', 'can only concatenate %s to %s' % (ka, ka))
                es = a.esort if isinstance(a, SSeq) else b.esort
                sa, sb = self.to_seq(it, a, es), self.to_seq(it, b, es)
                if inplace and isinstance(a, SSeq) and a.mutable:
                    new = self.seq_concat(it, sa, sb)
                    a.arr, a.length = new.arr, new.length
                    return a
                return self.seq_concat(it, sa, sb, kind=ka, mutable=(ka == 'list'))
            it.raise_('TypeError', 'can only concatenate sequences')
        if op == 'Mod' and isinstance(a, str):
            if has_sym(b):
                return '<formatted message>'
            try:
                return a % b
            except (TypeError, ValueError) as e:
                it.raise_(type(e).__name__, str(e))
        if op == 'Add' and isinstance(a, str) and isinstance(b, str):
            return a + b
        from .values import OpaqueText
        if op == 'Add' and all(isinstance(x, (str, SKey, OpaqueText)) for x in (a, b)):
            return OpaqueText()
        if not has_sym(a) and not has_sym(b):
            import operator
            f = {'Add': operator.add, 'Sub': operator.sub, 'Mult': operator.mul, 'Div': operator.truediv,
                 'FloorDiv': operator.floordiv, 'Mod': operator.mod, 'Pow': operator.pow, 'LShift': operator.lshift,
                 'RShift': operator.rshift, 'BitAnd': operator.and_, 'BitOr': operator.or_, 'BitXor': operator.xor}[op]
            try:
                return f(a, b)
            except (TypeError, ZeroDivisionError, ValueError, OverflowError) as e:
                it.raise_(type(e).__name__, str(e))
        if op == 'Add' and isinstance(a, (list, tuple)) and isinstance(b, (list, tuple)) and type(a) is type(b):
            return a + b
        raise OutOfSubset('binary %s on %r, %r' % (op, a, b))

    CMP_DUNDER = {'Eq': ('__eq__', '__eq__'), 'NotEq': ('__ne__', '__ne__'), 'Lt': ('__lt__', '__gt__'),
                  'LtE': ('__le__', '__ge__'), 'Gt': ('__gt__', '__lt__'), 'GtE': ('__ge__', '__le__')}

    def compare(self, it, op, a, b):
        if op == 'Is':
            return self.identical(it, a, b)
        if op == 'IsNot':
            return self.negate(it, self.identical(it, a, b))
        if op == 'In':
            return self.contains(it, b, a)
        if op == 'NotIn':
            return self.negate(it, self.contains(it, b, a))
        if isinstance(a, SObj) or isinstance(b, SObj):
            return self.rich_compare(it, op, a, b)
        r = self._compare_views(it, op, a, b)
        if r is not NotImpl:
            return r
        h = self.world.hooks.get('compare')
        if h is not None:
            r = h(it, op, a, b)
            if r is not NotImpl:
                return r
        ints = lambda x: isinstance(x, (SInt, SBool)) or isinstance(x, int)
        if (isinstance(a, (SInt, SBool)) or isinstance(b, (SInt, SBool))) and ints(a) and ints(b):
            x, y = self.int_term(it, a), self.int_term(it, b)
            f = {'Eq': lambda: x == y, 'NotEq': lambda: x != y, 'Lt': lambda: x < y, 'LtE': lambda: x <= y,
                 'Gt': lambda: x > y, 'GtE': lambda: x >= y}[op]
            return it.wrap(f())
        if isinstance(a, SKey) or isinstance(b, SKey):
            if op in ('Eq', 'NotEq'):
                if (isinstance(a, (SKey, str)) and isinstance(b, (SKey, str))):
                    t = it.as_term(a, smt.KEY) == it.as_term(b, smt.KEY)
                    return it.wrap(t if op == 'Eq' else z3.Not(t))
                if a is None or b is None or isinstance(a, (int, SInt, SBool)) or isinstance(b, (int, SInt, SBool)):
                    return op == 'NotEq'
            raise OutOfSubset('comparison %s on abstract strings' % op)
        if isinstance(a, (SVal,)) or isinstance(b, (SVal,)):
            raise OutOfSubset('comparison %s on opaque values (no hook)' % op)
        if isinstance(a, (tuple, list)) and isinstance(b, (tuple, list)) and op in ('Eq', 'NotEq') and (has_sym(a) or has_sym(b)):
            if type(a) is not type(b) or len(a) != len(b):
                return op == 'NotEq'
            conj = []
            for x, y in zip(a, b):
                r = self.compare(it, 'Eq', x, y)
                conj.append(r)
            terms = [z3.BoolVal(c) if isinstance(c, bool) else it.truth_term(c) for c in conj]
            t = z3.And(*terms) if terms else z3.BoolVal(True)
            return it.wrap(t if op == 'Eq' else z3.Not(t))
        if isinstance(a, (SSeq, SMap)) or isinstance(b, (SSeq, SMap)):
            raise OutOfSubset('comparison of symbolic containers')
        if has_sym(a) or has_sym(b):
            if op == 'Eq':
                return a is b
            if op == 'NotEq':
                return a is not b
            raise OutOfSubset('ordering of %r and %r' % (a, b))
        import operator
        f = {'Eq': operator.eq, 'NotEq': operator.ne, 'Lt': operator.lt, 'LtE': operator.le, 'Gt': operator.gt,
             'GtE': operator.ge}[op]
        try:
            return f(a, b)
        except TypeError as e:
            it.raise_('TypeError', str(e))

    def _compare_views(self, it, op, a, b):
        """keys()/items() views are set-like (== is set equality, also against set/frozenset, never equal to a list); values() views
        compare by identity"""
        from hv.vc.values import KeysList, ValuesList
        dk = (KeysList, type({}.keys()), type({}.items()))
        setlike = dk + (set, frozenset)
        va, vb = isinstance(a, dk), isinstance(b, dk)
        if isinstance(a, (ValuesList, type({}.values()))) or isinstance(b, (ValuesList, type({}.values()))):
            if op in ('Eq', 'NotEq'):
                return (a is b) == (op == 'Eq')
            it.raise_('TypeError', 'ordering of values views')
        if not (va or vb):
            return NotImpl
        if not (isinstance(a, setlike) and isinstance(b, setlike)):
            if op in ('Eq', 'NotEq'):
                return op == 'NotEq'
            it.raise_('TypeError', 'ordering of a view and a non-set')
        la, lb = list(a), list(b)
        if has_sym(la) or has_sym(lb):
            raise OutOfSubset('set comparison of views with symbolic elements')
        sa, sb = set(la), set(lb)
        return {'Eq': sa == sb, 'NotEq': sa != sb, 'Lt': sa < sb, 'LtE': sa <= sb, 'Gt': sa > sb, 'GtE': sa >= sb}[op]

    def int_term(self, it, v):
        if isinstance(v, SBool):
            return z3.If(v.term, 1, 0)
        if isinstance(v, bool):
            return z3.IntVal(int(v))
        return it.as_term(v)

    def rich_compare(self, it, op, a, b):
        """A-disp: a.__op__(b); NotImplemented -> b.__rop__(a); both -> identity for ==/!=, TypeError otherwise."""
        fwd, rev = self.CMP_DUNDER[op]
        tried = False
        # a proper subclass on the right that overrides the reflected method goes first
        order = [(a, fwd, b), (b, rev, a)]
        if isinstance(a, SObj) and isinstance(b, SObj) and b.cls is not a.cls and b.cls.issubclass(a.cls):
            cb, mb = b.cls.find_method(rev)
            ca, ma = a.cls.find_method(rev)
            if mb is not None and mb is not ma:
                order.reverse()
        else:
            h = self.world.hooks.get('right_first')
            if h is not None and h(it, a, b, rev):
                order.reverse()
        for (x, meth, y) in order:
            if isinstance(x, SObj):
                c, m = x.cls.find_method(meth)
                hb = self.world.hooks.get('builtin_base_method')
                if m is None and hb is not None:
                    r = hb(it, x, meth, y)        # method inherited from a builtin base class (str.__ne__, ...)
                    if r is not None:
                        if r is not NotImpl:
                            return r
                        continue
                if m is None and meth == '__ne__':
                    c2, m2 = x.cls.find_method('__eq__')
                    if m2 is not None:
                        # object.__ne__ default: invert __eq__ unless NotImplemented
                        r = it.call_method(x, '__eq__', [y])
                        if r is not NotImpl:
                            return self.negate(it, it.wrap(it.truth_term(r)) if isinstance(r, Sym) else bool(r))
                        continue
                if m is not None:
                    r = it.call_method(x, meth, [y])
                    if r is not NotImpl:
                        return r
            else:
                h = self.world.hooks.get('native_rich_compare')
                if h is not None:
                    r = h(it, x, meth, y)
                    if r is not NotImpl:
                        return r
        if op == 'Eq':
            return self.identical(it, a, b)
        if op == 'NotEq':
            return self.negate(it, self.identical(it, a, b))
        it.raise_('TypeError', "'%s' not supported between these instances" % op)

    def negate(self, it, v):
        if isinstance(v, bool):
            return not v
        return it.wrap(z3.Not(it.truth_term(v)))

    def identical(self, it, a, b):
        if isinstance(a, (SVal, SKey)) or isinstance(b, (SVal, SKey)):
            h = self.world.hooks.get('identical')
            if h is not None:
                r = h(it, a, b)
                if r is not NotImpl:
                    return r
            if isinstance(a, Sym) and isinstance(b, Sym) and type(a) is type(b):
                return it.wrap(a.term == b.term)
            if a is None or b is None:
                h2 = self.world.hooks.get('is_none')
                if h2 is not None:
                    return h2(it, a if b is None else b)
                if isinstance(a, SKey) or isinstance(b, SKey):
                    return False            # an abstract string is not None
                # an opaque value may be None: never assume it is not (a world that knows better installs the hook 'is_none')
                raise OutOfSubset('`is None` on an opaque value in a world without a model of None')
            raise OutOfSubset('identity of %r and %r' % (a, b))
        if isinstance(a, (SInt, SBool)) or isinstance(b, (SInt, SBool)):
            if a is None or b is None or a is NotImplemented or b is NotImplemented:
                return False
            raise OutOfSubset('identity test on symbolic scalars')
        if isinstance(a, (int, str, bool, type(None), tuple)) and not has_sym(a) and not has_sym(b) and type(a) is type(b):
            if isinstance(a, (bool, type(None))):
                return a is b
            if isinstance(a, tuple) and len(a) > 0:
                return a is b
            return a == b
        return a is b

    def contains(self, it, container, x):
        container = unmap(container)
        if isinstance(container, SObj):
            c, m = container.cls.find_method('__contains__')
            if m is not None:
                r = it.call_method(container, '__contains__', [x])
                return it.wrap(it.truth_term(r)) if isinstance(r, Sym) else bool(r)
            c, m = container.cls.find_method('__getitem__')
            if m is not None:
                # Mapping.__contains__ (stdlib source): try self[key] except KeyError
                try:
                    it.call_method(container, '__getitem__', [x])
                    return True
                except PyExc as e:
                    if e.cls == 'KeyError':
                        return False
                    raise
            raise OutOfSubset('in on %s' % container.cls.name)
        if isinstance(container, SSeq):
            return it.wrap(self.seq_contains(it, container, x))
        if isinstance(container, SMap):
            return it.wrap(z3.Select(container.dom, it.as_term(x, container.ksort)))
        if isinstance(container, Sym):
            h = self.world.hooks.get('val_contains')
            if h is not None:
                return h(it, container, x)
            raise OutOfSubset('in on %r' % (container,))
        if isinstance(container, (list, tuple, set, frozenset, dict)):
            if not has_sym(x) and not has_sym(list(container)):
                try:
                    return x in container
                except TypeError:
                    it.raise_('TypeError', 'unhashable')
            elems = self.iter_view(it, container) if isinstance(container, (set, frozenset)) else list(container)
            for e in elems:          # deterministic order (sets of objects hash by address)
                if it.truth(self.compare(it, 'Eq', e, x)):
                    return True
            return False
        if isinstance(container, str):
            if isinstance(x, str):
                return x in container
            if isinstance(x, Sym):
                h = self.world.hooks.get('str_contains')
                if h is not None:
                    return h(it, container, x)
            raise OutOfSubset('symbolic in str')
        raise OutOfSubset('in on %r' % (container,))
