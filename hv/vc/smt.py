"""SMT layer: sorts, solver ladder (z3 in-process -> cvc5 CLI -> z3-new CLI), fingerprints."""
import hashlib
import os
import re
import shutil
import subprocess
import tempfile
import time

import z3

VAL = z3.DeclareSort('Val')      # an opaque Python object (identity = z3 equality)
KEY = z3.DeclareSort('Key')      # an opaque hashable whose == is z3 equality (str keys, ids' string forms)

Z3_TIMEOUT_MS = int(os.environ.get('HV_Z3_TIMEOUT_MS', '10000'))
CVC5_TIMEOUT_S = int(os.environ.get('HV_CVC5_TIMEOUT_S', '60'))


class Verdict(object):
    def __init__(self, status, backend, time_s, model=None, reason=''):
        self.status = status      # 'unsat' | 'sat' | 'unknown'
        self.backend = backend
        self.time_s = time_s
        self.model = model
        self.reason = reason


def _smt2(assertions, logic=None):
    s = z3.Solver()
    for a in assertions:
        s.add(a)
    return s.to_smt2()


def fingerprint(assertions):
    """Hash of the canonical SMT-LIB text of a query (fresh names are deterministic per task)."""
    txt = _smt2(assertions)
    return hashlib.sha256(txt.encode()).hexdigest()[:16]


def _guarded_check(s, timeout_ms):
    """s.check(); hard limits are enforced per task by the runner (subprocess + wall-clock kill)."""
    try:
        return s.check()
    except z3.Z3Exception:
        return z3.unknown


def check(assertions, timeout_ms=None, want_model=True, try_cvc5=True, single=False, rlimit=None):
    """Decide satisfiability of the conjunction. Returns Verdict."""
    t0 = time.time()
    s = z3.Solver()
    s.set('timeout', timeout_ms or Z3_TIMEOUT_MS)
    if rlimit:
        s.set('rlimit', rlimit)     # deterministic budget: verdicts do not flip under machine load
    for a in assertions:
        s.add(a)
    r = _guarded_check(s, timeout_ms or Z3_TIMEOUT_MS)
    dt = time.time() - t0
    if r == z3.unsat:
        return Verdict('unsat', 'z3', dt)
    if r == z3.sat:
        return Verdict('sat', 'z3', dt, model=s.model() if want_model else None)
    reason = s.reason_unknown()
    if single:
        return Verdict('unknown', 'z3', dt, reason=reason)
    if try_cvc5 and 'lambda' not in _smt2(assertions):
        v = check_cvc5(assertions)
        if v.status != 'unknown':
            v.time_s += dt
            return v
        reason += ' | cvc5: ' + v.reason
    # second z3 configuration: different quantifier strategy
    t1 = time.time()
    s2 = z3.Solver()
    s2.set('timeout', (timeout_ms or Z3_TIMEOUT_MS) * 2)
    s2.set('smt.mbqi', False)
    s2.set('smt.ematching', True)
    for a in assertions:
        s2.add(a)
    r = _guarded_check(s2, (timeout_ms or Z3_TIMEOUT_MS) * 2)
    dt2 = time.time() - t1
    if r == z3.unsat:
        return Verdict('unsat', 'z3(ematching)', dt + dt2)
    return Verdict('unknown', 'z3+cvc5', time.time() - t0, reason=reason)


def check_cvc5(assertions, timeout_s=None):
    exe = shutil.which('cvc5') or '/usr/bin/cvc5'
    t0 = time.time()
    if not os.path.exists(exe):
        return Verdict('unknown', 'cvc5', 0.0, reason='cvc5 binary not found')
    txt = _smt2(assertions)
    # z3 prints (declare-sort X 0) fine for cvc5; needs a logic
    txt = '(set-logic ALL)\n' + txt
    d = tempfile.mkdtemp(prefix='hvq')
    try:
        p = os.path.join(d, 'q.smt2')
        with open(p, 'w') as f:
            f.write(txt)
        try:
            out = subprocess.run([exe, '--strings-exp', '--tlimit=%d' % ((timeout_s or CVC5_TIMEOUT_S) * 1000), p],
                                 capture_output=True, text=True, timeout=(timeout_s or CVC5_TIMEOUT_S) + 10)
            o = out.stdout.strip().split('\n')[0] if out.stdout.strip() else ''
            if o == 'unsat':
                return Verdict('unsat', 'cvc5', time.time() - t0)
            if o == 'sat':
                return Verdict('sat', 'cvc5', time.time() - t0, model=None, reason='cvc5 sat (no model extracted)')
            return Verdict('unknown', 'cvc5', time.time() - t0, reason=(out.stdout + out.stderr)[:300])
        except subprocess.TimeoutExpired:
            return Verdict('unknown', 'cvc5', time.time() - t0, reason='timeout')
    finally:
        shutil.rmtree(d, ignore_errors=True)


def model_to_dict(model, terms):
    """Evaluate named terms in a model -> {name: python-ish string}."""
    out = {}
    if model is None:
        return out
    for name, t in terms.items():
        try:
            out[name] = str(model.eval(t, model_completion=True))
        except Exception as e:  # pragma: no cover
            out[name] = '<%s>' % e
    return out
