"""E3 front end: the ZINC grammar as it exists in the running module.

The grammar of hszinc.zincparser is a graph of pyparsing objects built when the module is imported.  It is extracted
on every run by importing the real module from REPO and walking that object graph (class, pattern / literal /
character set, children, whitespace flag, names, parse actions).  Parse actions are the real function objects; each
is mapped back to its AST node in the source file so that E1 can execute it symbolically.  What the extraction
assumes about pyparsing (ledger A-pp) is stated in sem.py; `tools/pegdiff.py` compares the compiled semantics with
the real parser on generated inputs (bounded validation of A-pp, labelled)."""
import ast
import hashlib
import importlib
import os
import sys

from hv.frontend import extract

REPO = extract.REPO


class GNode(object):
    def __init__(self, kind, obj):
        self.kind = kind
        self.obj = obj
        self.children = []
        self.pattern = None      # regex
        self.text = None         # literal
        self.ret = None          # caseless literal: the token it returns
        self.chars = None        # word1: string of allowed characters
        self.actions = []        # [Action]
        self.name = None
        self.skip_ws = None
        self.uid = None

    def __repr__(self):
        return 'GNode(%s%s)' % (self.kind, ' ' + repr(self.name) if self.name else '')


class Action(object):
    def __init__(self, fn, node, qual):
        self.fn = fn
        self.node = node          # ast.Lambda | ast.FunctionDef
        self.qual = qual
        self.sha = hashlib.sha256(ast.dump(node, include_attributes=False).encode()).hexdigest()[:16]


class OutOfGrammarSubset(Exception):
    pass


_MOD = {}


def load(modname='hszinc.zincparser'):
    """import the real module from REPO (a fresh interpreter per task guarantees it is this tree's)"""
    if modname in _MOD:
        return _MOD[modname]
    if sys.path[0] != REPO:
        sys.path.insert(0, REPO)
    import io
    import contextlib
    with contextlib.redirect_stdout(io.StringIO()):
        m = importlib.import_module(modname)
    assert os.path.realpath(m.__file__).startswith(os.path.realpath(REPO) + os.sep), (m.__file__, REPO)
    _MOD[modname] = m
    return m


class Extractor(object):
    def __init__(self, modname='hszinc.zincparser'):
        self.modname = modname
        self.mod = load(modname)
        self.src = extract.module(modname)
        self.by_id = {}
        self.nodes = []
        import pyparsing as pp
        self.pp = pp
        self._lambdas = [n for n in ast.walk(self.src.tree) if isinstance(n, ast.Lambda)]

    def _action(self, wrapper):
        fn = None
        for c in (getattr(wrapper, '__closure__', None) or []):
            try:
                v = c.cell_contents
            except ValueError:
                continue
            if callable(v) and str(getattr(v, '__module__', '')).startswith('hszinc.') and hasattr(v, '__code__'):
                fn = v
        if fn is None:
            if str(getattr(wrapper, '__module__', '')).startswith('hszinc.'):
                fn = wrapper
            else:
                raise OutOfGrammarSubset('parse action %r is not a function of the package' % (wrapper,))
        code = fn.__code__
        src = self.src if fn.__module__ == self.modname else extract.module(fn.__module__)
        lambdas = self._lambdas if src is self.src else [n for n in ast.walk(src.tree) if isinstance(n, ast.Lambda)]
        modname = fn.__module__
        if fn.__name__ == '<lambda>':
            cands = [n for n in lambdas if n.lineno == code.co_firstlineno]
            if len(cands) > 1:
                pos = [(p[0], p[2]) for p in code.co_positions() if p[0] is not None and p[2] is not None and not (p[2] == 0 and p[3] == 0)]
                inside = [n for n in cands if pos and all((n.body.lineno, n.body.col_offset) <= x <= (n.body.end_lineno, n.body.end_col_offset) for x in pos)]
                inside.sort(key=lambda n: (n.body.lineno, n.body.col_offset))
                cands = inside[-1:] if inside else cands
            if len(cands) != 1:
                raise OutOfGrammarSubset('cannot locate the source of a lambda at line %d' % code.co_firstlineno)
            node = cands[0]
            qual = '%s.<lambda@%d:%d>' % (modname, node.lineno, node.col_offset)
        else:
            node = src.functions.get(fn.__name__)
            if node is None or node.lineno != code.co_firstlineno:
                raise OutOfGrammarSubset('cannot locate the source of %s' % fn.__name__)
            qual = '%s.%s' % (modname, fn.__name__)
        a = Action(fn, node, qual)
        a.module = modname
        return a

    def node(self, e):
        pp = self.pp
        if id(e) in self.by_id:
            return self.by_id[id(e)]
        T = type(e)
        if T is pp.Regex:
            g = GNode('regex', e)
            g.pattern = e.pattern
            if e.flags:
                raise OutOfGrammarSubset('Regex flags')
            if getattr(e, 'as_group_list', False) or getattr(e, 'as_match', False):
                raise OutOfGrammarSubset('Regex as_group_list / as_match')
        elif T is pp.CaselessLiteral:
            g = GNode('caseless', e)
            g.text = e.match
            g.ret = e.returnString
        elif T is pp.Empty:
            g = GNode('empty', e)
        elif T is pp.Literal or T.__name__ == '_SingleCharLiteral':
            g = GNode('lit', e)
            g.text = e.match
        elif T is pp.Word:
            if not (e.minLen == 1 and e.maxLen == 1) or e.asKeyword:
                raise OutOfGrammarSubset('Word other than a single character')
            g = GNode('word1', e)
            g.chars = ''.join(sorted(e.initChars))
        elif T is pp.StringEnd:
            g = GNode('end', e)
        elif T is pp.Keyword:
            if e.caseless:
                raise OutOfGrammarSubset('caseless Keyword')
            g = GNode('keyword', e)
            g.text = e.match
            g.chars = ''.join(sorted(e.identChars))
        elif T in (pp.And, pp.Or, pp.MatchFirst):
            g = GNode({pp.And: 'and', pp.Or: 'or', pp.MatchFirst: 'first'}[T], e)
            self.by_id[id(e)] = g
            if T is pp.And and any(type(x).__name__ == '_ErrorStop' for x in e.exprs):
                raise OutOfGrammarSubset('And with error stop')
            g.children = [self.node(x) for x in e.exprs]
        elif T in (pp.Opt, pp.ZeroOrMore, pp.OneOrMore, pp.Combine, pp.Suppress, pp.Group, pp.Forward, pp.DelimitedList):
            g = GNode({pp.Opt: 'opt', pp.ZeroOrMore: 'star', pp.OneOrMore: 'plus', pp.Combine: 'combine', pp.Suppress: 'suppress',
                       pp.Group: 'group', pp.Forward: 'forward', pp.DelimitedList: 'pass'}[T], e)
            self.by_id[id(e)] = g
            if T in (pp.ZeroOrMore, pp.OneOrMore) and e.not_ender is not None:
                raise OutOfGrammarSubset('stopOn')
            if T is pp.Opt and e.defaultValue is not pp.Opt._Opt__optionalNotMatched:
                raise OutOfGrammarSubset('Optional default value')
            if T is pp.Combine and (not e.adjacent or e.joinString != ''):
                raise OutOfGrammarSubset('Combine(adjacent=False / joinString)')
            if T is pp.Group and getattr(e, '_asPythonList', False):
                raise OutOfGrammarSubset('Group(aslist)')
            if e.expr is None:
                raise OutOfGrammarSubset('Forward without expression')
            g.children = [self.node(e.expr)]
        else:
            raise OutOfGrammarSubset('pyparsing element %s' % T.__name__)
        self.by_id[id(e)] = g
        if g.uid is None:
            g.uid = len(self.nodes)
            self.nodes.append(g)
        g.name = e.customName
        g.skip_ws = bool(e.skipWhitespace)
        g.call_pre = bool(getattr(e, 'callPreparse', True))
        g.white = ''.join(sorted(e.whiteChars)) if g.skip_ws else ''
        if g.skip_ws and set(e.whiteChars) != set(' \n\t\r'):
            raise OutOfGrammarSubset('non-default whitespace characters')
        if e.ignoreExprs:
            raise OutOfGrammarSubset('ignore expressions')
        if e.resultsName:
            raise OutOfGrammarSubset('results names')
        if e.failAction is not None or e.debug:
            raise OutOfGrammarSubset('fail action / debug')
        if getattr(e, 'callDuringTry', False):
            raise OutOfGrammarSubset('callDuringTry')
        g.actions = [self._action(a) for a in (e.parseAction or [])]
        return g


def describe(g, depth=0, seen=None, out=None, maxdepth=40):
    """canonical text of the grammar below g (for hashing / evidence)"""
    seen = {} if seen is None else seen
    out = [] if out is None else out
    if g.uid in seen:
        out.append('%s@%d' % ('  ' * depth, seen[g.uid]))
        return out
    seen[g.uid] = len(seen)
    bits = [g.kind]
    if g.pattern is not None:
        bits.append('re=%r' % g.pattern)
    if g.text is not None:
        bits.append('text=%r' % g.text)
    if g.ret is not None:
        bits.append('ret=%r' % g.ret)
    if g.chars is not None:
        bits.append('chars=%s' % hashlib.sha256(g.chars.encode('utf-8', 'surrogatepass')).hexdigest()[:8] if len(g.chars) > 12 else 'chars=%r' % g.chars)
    if g.name:
        bits.append('name=%r' % g.name)
    if g.skip_ws:
        bits.append('SKIPWS' if getattr(g, 'call_pre', True) else 'SKIPWS(no-preparse)')
    if g.kind == 'keyword':
        bits.append('ident=%s' % hashlib.sha256(g.chars.encode()).hexdigest()[:8])
    for a in g.actions:
        bits.append('action=%s#%s' % (a.qual, a.sha))
    out.append('%s%d:%s' % ('  ' * depth, seen[g.uid], ' '.join(bits)))
    for c in g.children:
        describe(c, depth + 1, seen, out)
    return out


def fingerprint(g):
    return hashlib.sha256('\n'.join(describe(g)).encode()).hexdigest()[:16]


def walk(g, seen=None):
    seen = set() if seen is None else seen
    if g.uid in seen:
        return
    seen.add(g.uid)
    yield g
    for c in g.children:
        for x in walk(c, seen):
            yield x
