"""Bounded validation of the E3 semantics (ledger A-pp) against the real pyparsing objects: for generated inputs the
extent consumed / failure computed from the marked automata must equal what the real element does (try_parse).
BOUNDED: a finite sample, never counted as proved."""
import random

from . import marked


def run_extent(comp, sem, text):
    """extent consumed by the compiled semantics on `text` (None = fails); checks functionality (exactly one outcome)"""
    alg = comp.alg
    key = id(sem)
    cache = comp.__dict__.setdefault('_strip_cache', {})
    if key not in cache:
        cache[key] = (alg.strip_keep_end(sem.cons), sem)
    C = cache[key][0]
    F = sem.fail
    syms = []
    for ch in text:
        cls = None
        for i, c in enumerate(comp.classes):
            if ord(ch) in c:
                cls = i
                break
        syms.append(cls)
    outcomes = []
    kn = getattr(alg, 'KN', None)
    if kn is not None:
        syms = [kn] + syms
    # fail?
    q = F.start
    ok = True
    for s in syms:
        q = F.delta[q].get(s)
        if q is None:
            ok = False
            break
    if ok and q in F.finals:
        outcomes.append(None)
    # consume n
    q = C.start
    pre = [q]
    for s in syms:
        q = None if q is None else C.delta[q].get(s)
        pre.append(q)
    for n in range(1 if kn is not None else 0, len(syms) + 1):
        q = pre[n]
        if q is None:
            break
        q = C.delta[q].get(marked.END)
        for s in syms[n:]:
            if q is None:
                break
            q = C.delta[q].get(s)
        if q is not None and q in C.finals:
            outcomes.append(n - (1 if kn is not None else 0))
    return outcomes


def real_extent(obj, text):
    import pyparsing as pp
    try:
        return obj.try_parse(text, 0)
    except pp.ParseException:
        return None


def sample_strings(comp, sem, rnd, count, maxlen=14, mutate=True):
    """random walks through the Cons automaton (accepted marked words, marks dropped) + mutations + random strings"""
    C = sem.cons
    out = []
    alphabet = [chr(c.sample()) for c in comp.classes]
    # favour characters that occur in the grammar
    for _ in range(count):
        q = C.start
        s = []
        for _ in range(maxlen * 3):
            row = C.delta[q]
            if not row or (q in C.finals and rnd.random() < 0.3):
                break
            sym = rnd.choice(list(row))
            if isinstance(sym, int) and sym in (getattr(comp.alg, 'KI', -1), getattr(comp.alg, 'KN', -1)):
                if sym == getattr(comp.alg, 'KI', -1) and getattr(comp.alg, 'KN', -1) in row:
                    sym = comp.alg.KN
                q = row[sym]
                continue
            if isinstance(sym, int):
                if sym >= comp.nclasses:
                    break
                cs = comp.classes[sym]
                lo, hi = rnd.choice(cs.iv)
                cp = rnd.choice([lo, hi, cs.sample(), rnd.randint(lo, hi)])
                if 0xD800 <= cp <= 0xDFFF:
                    cp = cs.sample()
                s.append(chr(cp))
            q = row[sym]
        t = ''.join(s)
        out.append(t)
        if t and mutate:
            i = rnd.randrange(len(t))
            out.append(t[:i] + t[i + 1:])
            out.append(t[:i] + rnd.choice(alphabet) + t[i:])
            out.append(t[:i] + rnd.choice(alphabet) + t[i + 1:])
    for _ in range(count // 4 if mutate else 0):
        out.append(''.join(rnd.choice(alphabet) for _ in range(rnd.randint(0, 6))))
    return out


def compare(comp, g, sem, rnd, count, mutate=True):
    """-> (cases, list of disagreements)"""
    bad = []
    n = 0
    for t in sample_strings(comp, sem, rnd, count, mutate=mutate):
        if '\t' in t and not hasattr(comp.alg, 'KN'):
            continue
        n += 1
        mine = run_extent(comp, sem, t)
        real = real_extent(g.obj, t)
        if mine != [real]:
            bad.append({'text': t, 'semantics': mine, 'pyparsing': real})
            if len(bad) > 5:
                break
    return n, bad


FOLLOW = ', ]}>\n\r'
FOLLOW_OK_SINGLE = ()


def compare_nested(comp, g, sem, rnd, count, fillers, maxlen=24):
    """abstract words of Cons(g) with each abstract letter replaced by a concrete nested text (fillers[k] = list of
    texts): the real element must consume exactly the concretised extent (rule R-nest, bounded validation)."""
    C = sem.cons
    bad = []
    n = 0
    for _ in range(count):
        q = C.start
        pre, post = [], []
        cur = pre
        ok = True
        for _ in range(maxlen * 3):
            row = C.delta[q]
            if not row or (q in C.finals and rnd.random() < 0.35):
                break
            sym = rnd.choice(list(row))
            if isinstance(sym, int):
                if sym >= comp.nclasses:
                    cur.append(rnd.choice(fillers[sym - comp.nclasses]))
                else:
                    cs = comp.classes[sym]
                    lo, hi = rnd.choice(cs.iv)
                    cp = rnd.choice([lo, hi, cs.sample()])
                    if 0xD800 <= cp <= 0xDFFF or cp == 9:
                        cp = cs.sample()
                    cur.append(chr(cp))
            elif sym == marked.END:
                cur = post
            q = row[sym]
        if q not in C.finals or cur is pre:
            continue
        # R-nest side condition: a nested value is followed by a separator / closer / end (never glued to the next token)
        seq = pre + ['#'] + post
        glued = False
        for i, piece in enumerate(seq):
            if piece in sum(fillers, []) and len(piece) >= 1 and piece not in FOLLOW_OK_SINGLE:
                nxt = ''.join(x for x in seq[i + 1:] if x != '#')[:1]
                if nxt and nxt not in FOLLOW:
                    glued = True
        if glued:
            continue
        text = ''.join(pre) + ''.join(post)
        if '\t' in text:
            continue
        n += 1
        real = real_extent(g.obj, text)
        if real != len(''.join(pre)):
            bad.append({'text': text, 'semantics': len(''.join(pre)), 'pyparsing': real})
            if len(bad) > 5:
                break
    return n, bad
