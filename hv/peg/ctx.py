"""E3 with one bit of left context and implicit whitespace skipping (the filter grammar of hszinc.grid_filter).

pyparsing's Keyword looks one character BEHIND (the keyword must not directly follow an identifier character), so the
outcome of an expression is a function of (is the previous character an identifier character?, remaining input).  Every
language here therefore starts with a context symbol KI / KN (ints outside `chars`, so that all product constructions of
marked.Algebra treat them as ordinary shared input symbols); sequence and repetition compute the context of the next
element from the last consumed character.  Whitespace skipping (ledger A-pp-ws, read from pyparsing 3.3.2): an element
whose skipWhitespace flag is set skips [ \\t\\n\\r]* before matching when it is entered with callPreParse=True; And enters
its first element with callPreParse=False, Opt / Forward / Combine / Suppress / Group / DelimitedList enter their
expression with callPreParse=False, Or / MatchFirst / ZeroOrMore / OneOrMore with True."""
from . import marked
from .marked import END, U, DFA, build, Sem


class CtxAlgebra(marked.Algebra):
    def __init__(self, nclasses, nabstract, ident_classes):
        marked.Algebra.__init__(self, nclasses, nabstract)
        self.KI = nclasses + nabstract
        self.KN = nclasses + nabstract + 1
        self.ident = frozenset(ident_classes)

    def kap(self, last):
        return self.KI if last else self.KN

    def upd(self, last, sym):
        if sym == self.KI:
            return True
        if sym == self.KN:
            return False
        return sym in self.ident

    def is_kappa(self, sym):
        return sym == self.KI or sym == self.KN

    # ---- primitives
    def _prefixed(self, inner_start_states, succ, fin, kappas=None):
        kappas = (self.KI, self.KN) if kappas is None else kappas

        def s2(s):
            if s == ('k',):
                for k in kappas:
                    for st in inner_start_states:
                        yield k, st
            else:
                for x in succ(s):
                    yield x
        return build([('k',)], s2, lambda s: s != ('k',) and fin(s))

    def from_language(self, L, kappas=None):
        chars = self.chars

        def succ(s):
            kind, q = s
            if kind == 0:
                for c, t in L.delta[q].items():
                    yield c, (0, t)
                if q in L.finals:
                    yield END, (1, q)
            elif kind == 1:
                if q is U:
                    for c in chars:
                        yield c, (1, U)
                    return
                for c in chars:
                    t = L.delta[q].get(c)
                    if t is None:
                        yield c, (1, U)
                    elif t in L.finals:
                        continue
                    else:
                        yield c, (1, t)
        cons = self._prefixed([(0, L.start)], succ, lambda s: s[0] == 1, kappas)
        fail = self.complement_ctx(self.strip(cons))
        return Sem(cons, fail)

    def keyword(self, L):
        """the exact word of L, not directly after an identifier character and not directly followed by one"""
        chars = self.chars

        def succ(s):
            kind, q = s
            if kind == 0:
                for c, t in L.delta[q].items():
                    yield c, (0, t)
                if q in L.finals:
                    yield END, (1, 'v')
            elif q == 'v':
                for c in chars:
                    if c not in self.ident:
                        yield c, (1, U)
            else:
                for c in chars:
                    yield c, (1, U)
        cons = self._prefixed([(0, L.start)], succ, lambda s: s[0] == 1, kappas=(self.KN,))
        return Sem(cons, self.complement_ctx(self.strip(cons)))

    def empty(self):
        cons = self._prefixed([(0,)], lambda s: ([(END, (1,))] if s == (0,) else [(c, (1,)) for c in self.chars]), lambda s: s == (1,))
        return Sem(cons, self.empty_fail())

    def end_of_input(self):
        cons = self._prefixed([(0,)], lambda s: ([(END, (1,))] if s == (0,) else []), lambda s: s == (1,))
        return Sem(cons, self.complement_ctx(self.strip(cons)))

    def all_strings(self):
        return self._prefixed([(0,)], lambda s: [(c, (0,)) for c in self.chars], lambda s: True)

    def complement_ctx(self, X):
        """complement w.r.t. (KI|KN) chars*  (X mark-free)"""
        def succ(s):
            if s == ('k',):
                for k in (self.KI, self.KN):
                    yield k, ('x', X.delta[X.start].get(k))
                return
            q = s[1]
            for c in self.chars:
                yield c, ('x', None if q is None else X.delta[q].get(c))
        return build([('k',)], succ, lambda s: s != ('k',) and (s[1] is None or s[1] not in X.finals))

    complement_chars = complement_ctx

    # ---- sequence
    def seq(self, a, b):
        A, B = a.cons, b.cons
        uA = A.universal(self.chars)

        def succ(s):
            ph = s[0]
            if ph == 1:
                q, last = s[1], s[2]
                for sym, t in A.delta[q].items():
                    if sym == END:
                        bs = B.delta[B.start].get(self.kap(last))
                        if bs is not None:
                            yield None, (2, (U if t in uA else t), bs)
                    elif isinstance(sym, int):
                        yield sym, (1, t, self.upd(last, sym))
                    else:
                        yield sym, (1, t, last)
            else:
                p, q = s[1], s[2]
                for sym, t in B.delta[q].items():
                    if isinstance(sym, int):
                        if p is U:
                            yield sym, (ph, U, t)
                        else:
                            pt = A.delta[p].get(sym)
                            if pt is not None:
                                yield sym, (ph, (U if pt in uA else pt), t)
                    elif sym == END:
                        if ph == 2:
                            yield END, (3, p, t)
                    elif ph == 2:
                        yield sym, (2, p, t)
        cons = build([(1, A.start, False)], succ, lambda s: s[0] == 3 and (s[1] is U or s[1] in A.finals) and s[2] in B.finals)
        Fa, Fb = a.fail, b.fail

        def fsucc(s):
            ph = s[0]
            if ph == 0:
                for sym, t in Fa.delta[s[1]].items():
                    yield sym, (0, t)
            elif ph == 1:
                q, last = s[1], s[2]
                for sym, t in A.delta[q].items():
                    if sym == END:
                        fs = Fb.delta[Fb.start].get(self.kap(last))
                        if fs is not None:
                            yield None, (2, (U if t in uA else t), fs)
                    elif isinstance(sym, str):
                        yield None, (1, t, last)
                    else:
                        yield sym, (1, t, self.upd(last, sym))
            else:
                p, f = s[1], s[2]
                for sym, t in Fb.delta[f].items():
                    if p is U:
                        yield sym, (2, U, t)
                    else:
                        pt = A.delta[p].get(sym)
                        if pt is not None:
                            yield sym, (2, (U if pt in uA else pt), t)
        fail = build([(0, Fa.start), (1, A.start, False)], fsucc,
                     lambda s: (s[0] == 0 and s[1] in Fa.finals) or (s[0] == 2 and (s[1] is U or s[1] in A.finals) and s[2] in Fb.finals))
        return Sem(cons, fail)

    def optional(self, a):
        F = a.fail

        def succ(s):
            if s == ('k',):
                for k in (self.KI, self.KN):
                    yield k, (0, k)
            elif s[0] == 0:
                f = F.delta[F.start].get(s[1])
                if f is not None:
                    yield END, (1, f)
            else:
                for sym, t in F.delta[s[1]].items():
                    yield sym, (1, t)
        c2 = build([('k',)], succ, lambda s: s != ('k',) and s[0] == 1 and s[1] in F.finals)
        return Sem(self._union([a.cons, c2]), self.empty_fail())

    def nullable(self, a):
        s = self.strip_keep_end(a.cons)
        for k in (self.KI, self.KN):
            t = s.delta[s.start].get(k)
            if t is not None and END in s.delta[t]:
                return True
        return False

    def star(self, a):
        A, F = a.cons, a.fail
        uA = A.universal(self.chars)

        def enter(last, S):
            """state at the start of an iteration with context `last`"""
            return ('s', A.delta[A.start].get(self.kap(last)), S, True, last)

        def succ(s):
            if s == ('k',):
                for k in (self.KI, self.KN):
                    yield k, enter(k == self.KI, frozenset())
                return
            if s[0] == 's':
                q, S, fresh, last = s[1], s[2], s[3], s[4]
                if q is not None:
                    for sym, t in A.delta[q].items():
                        if isinstance(sym, int):
                            S2 = self._step_set(A, S, sym, uA)
                            if S2 is not None:
                                yield sym, ('s', t, S2, False, self.upd(last, sym))
                        elif sym == END:
                            if not fresh:
                                yield None, enter(last, (S if t in uA else S | {t}))
                        else:
                            yield sym, ('s', t, S, fresh, last)
                if fresh:
                    f = F.delta[F.start].get(self.kap(last))
                    if f is not None:
                        yield END, ('e', f, S)
            else:
                f, S = s[1], s[2]
                for sym, t in F.delta[f].items():
                    S2 = self._step_set(A, S, sym, uA)
                    if S2 is not None:
                        yield sym, ('e', t, S2)
        cons = build([('k',)], succ, lambda s: s != ('k',) and s[0] == 'e' and s[1] in F.finals and all(p in A.finals for p in s[2]))
        return Sem(cons, self.empty_fail())

    def plus(self, a):
        return self.seq(a, self.star(a))


def _after_kappa(alg, c, insert):
    """a copy of the automaton c in which `insert(state after kappa) -> new target` splices a mark right after the context symbol"""
    d = DFA()
    d.delta = [dict(row) for row in c.delta]
    d.start = c.start
    d.finals = set(c.finals)
    for k in (alg.KI, alg.KN):
        t = d.delta[c.start].get(k)
        if t is not None:
            d.delta.append({insert: t})
            d.delta[c.start] = dict(d.delta[c.start])
            d.delta[c.start][k] = len(d.delta) - 1
    return d


def _ctx_wrap(self, sem, name):
    c = sem.cons
    d = _after_kappa(self, c, '<' + name)
    n = len(d.delta)
    for q in range(n):
        if END in d.delta[q]:
            t = d.delta[q].pop(END)
            d.delta.append({END: t})
            d.delta[q]['>' + name] = len(d.delta) - 1
    return Sem(marked.minimize(marked.trim(d)), sem.fail)


def _ctx_prefix_mark(self, sem, name):
    return Sem(marked.minimize(marked.trim(_after_kappa(self, sem.cons, name))), sem.fail)


CtxAlgebra.wrap = _ctx_wrap
CtxAlgebra.prefix_mark = _ctx_prefix_mark
