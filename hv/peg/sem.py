"""E3: compile an extracted pyparsing grammar (grammar.GNode) into marked regular languages (marked.Sem).

Ledger A-pp (what is assumed of pyparsing 3.x, read from its source, validated by tools/pegdiff.py on generated inputs):
  * with skipWhitespace off an element is tried exactly at the current position;
  * Regex(p) is re.compile(p).match(text, pos); Literal / CaselessLiteral / Word(exact=1) compare characters;
  * And = sequence; Or = every alternative is tried without actions, the longest wins, ties go to the earliest;
    MatchFirst = first success; Opt = try, else consume nothing; ZeroOrMore / OneOrMore = repeat until the body
    fails (no progress check); Combine / Suppress / Group / DelimitedList / Forward do not change what is consumed;
  * parse actions run after the element matched and cannot change what is consumed unless they raise ParseException
    (or IndexError, which pyparsing converts): actions.py proves they never do.
A CPython regular expression consumes the LONGEST prefix in its language when it has only greedy quantifiers and is
either deterministic in the Glushkov sense or has a prefix-free language; both are checked here per pattern,
anything else is out of subset (never a verdict)."""
import re

from hv.lang import sre2nfa
from hv.lang.charset import CS, minterms
from hv.lang import automata as NA
from . import marked
from .grammar import OutOfGrammarSubset, walk

try:
    import re._parser as sre_parse
    import re._constants as sre_c
except ImportError:      # pragma: no cover
    import sre_parse
    import sre_constants as sre_c


def _has_lazy(tree):
    for op, av in tree:
        if op is sre_c.MIN_REPEAT:
            return True
        if op in (sre_c.MAX_REPEAT,) or str(op) == 'POSSESSIVE_REPEAT':
            if _has_lazy(av[2]):
                return True
        elif op is sre_c.SUBPATTERN:
            if _has_lazy(av[3]):
                return True
        elif op is sre_c.BRANCH:
            if any(_has_lazy(a) for a in av[1]):
                return True
    return False


def glushkov_deterministic(nfa):
    """no state reaches (through epsilons) two different character transitions with overlapping sets"""
    eps = {}
    ch = {}
    for i, (s, l, d) in enumerate(nfa.trans):
        if l is None:
            eps.setdefault(s, []).append(d)
        elif isinstance(l, CS):
            ch.setdefault(s, []).append((i, l))
    for q in range(nfa.n):
        seen = {q}
        stack = [q]
        outs = []
        while stack:
            x = stack.pop()
            outs += ch.get(x, [])
            for y in eps.get(x, []):
                if y not in seen:
                    seen.add(y)
                    stack.append(y)
        for a in range(len(outs)):
            for b in range(a + 1, len(outs)):
                if outs[a][0] != outs[b][0] and (outs[a][1] & outs[b][1]):
                    return False
    return True


class Compiler(object):
    def __init__(self, roots, extra_sets=(), nest=None, abstract=0):
        """roots: GNodes; nest: {uid of a Forward: abstract letter number (0-based)}"""
        self.roots = list(roots)
        self.nest = {self.target(g).uid: k for g, k in (nest or {}).items()}      # body uid -> abstract letter
        self._re_nfa = {}
        sets = list(extra_sets)
        for r in self.roots:
            for g in walk(r):
                sets += self._sets_of(g)
        self.classes = minterms(list(dict.fromkeys(sets)))
        self.alg = marked.Algebra(len(self.classes), abstract)
        self.nclasses = len(self.classes)
        self._cls_cache = {}
        self._memo = {}
        self._stack = []
        self._root = None
        self._tag_depth = None
        self.tag_all_depths = False
        self.depth = None         # None: abstract letters for nested references; int: exact unrolling to that depth
        self._has_nest = {}
        self.notes = []

    # nesting budget: an int (the same for every recursive reference) or {abstract letter: remaining levels}
    def _budget(self, letter):
        d = self.depth
        return d.get(letter, 0) if isinstance(d, dict) else d

    def _descend(self, letter):
        d = self.depth
        if isinstance(d, dict):
            nd = dict(d)
            nd[letter] = nd.get(letter, 0) - 1
            return nd
        return d - 1

    def _dkey(self):
        d = self.depth
        return tuple(sorted(d.items())) if isinstance(d, dict) else d

    def contains_nest(self, g):
        r = self._has_nest.get(g.uid)
        if r is None:
            r = any(x.kind == 'forward' and self.target(x).uid in self.nest for x in walk(g))
            self._has_nest[g.uid] = r
        return r

    def compile_depth(self, g, depth, marks=None, tags=None):
        """exact semantics for inputs whose nesting (of non-empty collections / nested grids) is at most `depth`"""
        saved = self.depth
        self.depth = depth
        self._tag_depth = depth
        try:
            return self.compile(self.target(g) if g.kind == 'forward' else g, marks, tags)
        finally:
            self.depth = saved

    @staticmethod
    def target(g):
        """the expression a chain of Forwards / copies of Forwards finally refers to"""
        seen = set()
        while g.kind == 'forward' and g.uid not in seen:
            seen.add(g.uid)
            g = g.children[0]
        return g

    # ---- alphabet
    def _sets_of(self, g):
        if g.kind == 'regex':
            return self._regex_nfa(g.pattern).labels()
        if g.kind == 'lit':
            return [CS.of(c) for c in g.text]
        if g.kind == 'caseless':
            return [CS.of(c.lower(), c.upper()) for c in g.text]
        if g.kind == 'word1':
            return [CS([(ord(c), ord(c)) for c in g.chars])]
        return []

    def _regex_nfa(self, pat):
        if pat not in self._re_nfa:
            tree = sre2nfa.parse(pat, 0)
            if _has_lazy(tree):
                raise OutOfGrammarSubset('lazy quantifier in %r' % pat)
            try:
                n, dollar = sre2nfa.build(tree, tree.state.flags if hasattr(tree, 'state') else 0, ())
            except sre2nfa.Unsupported as e:
                raise OutOfGrammarSubset('regex %r: %s' % (pat, e))
            if dollar:
                raise OutOfGrammarSubset('anchor in token regex %r' % pat)
            self._re_nfa[pat] = n
        return self._re_nfa[pat]

    def class_ids(self, cs):
        r = self._cls_cache.get(cs)
        if r is None:
            r = tuple(i for i, c in enumerate(self.classes) if (c & cs))
            for i in r:
                if (self.classes[i] - cs):
                    raise AssertionError('alphabet does not refine %r' % (cs,))
            self._cls_cache[cs] = r
        return r

    def abstract_letter(self, k):
        return self.nclasses + k

    def lang(self, nfa):
        """hv.lang NFA (CS labels, marks) -> marked.DFA over class ids"""
        out = {}
        eps = {}
        for s, l, d in nfa.trans:
            if l is None:
                eps.setdefault(s, []).append((None, d))
            elif isinstance(l, CS):
                for c in self.class_ids(l):
                    out.setdefault(s, []).append((c, d))
            else:
                out.setdefault(s, []).append((l, d))

        def succ(q):
            return eps.get(q, []) + out.get(q, [])
        if nfa.start is None:
            return self.alg.empty_fail()
        return marked.build([nfa.start], succ, lambda q: q in nfa.finals)

    def to_nfa(self, dfa):
        """marked.DFA (no abstract letters) -> hv.lang NFA with CS labels (marks kept)"""
        n = NA.NFA()
        for _ in range(len(dfa.delta)):
            n.new()
        n.start = dfa.start
        n.finals = set(dfa.finals)
        for q, row in enumerate(dfa.delta):
            by = {}
            for sym, t in row.items():
                if isinstance(sym, int):
                    if sym >= self.nclasses:
                        raise OutOfGrammarSubset('abstract letter in to_nfa')
                    by.setdefault(t, []).append(sym)
                else:
                    n.add(q, sym, t)
            for t, syms in by.items():
                cs = CS()
                for s_ in syms:
                    cs = cs | self.classes[s_]
                n.add(q, cs, t)
        return n

    def lang_of_regex(self, pat):
        return self.lang(sre2nfa.body(pat, 0))

    def sample(self, syms):
        """symbol list -> readable witness"""
        out = []
        for s in syms or []:
            if isinstance(s, int):
                out.append(chr(self.classes[s].sample()) if s < self.nclasses else '⟨S%d⟩' % (s - self.nclasses))
            else:
                out.append('‹%s›' % s)
        return ''.join(out)

    def text_of(self, syms):
        return ''.join(chr(self.classes[s].sample()) for s in (syms or []) if isinstance(s, int) and s < self.nclasses)

    # ---- primitives
    def _prim(self, L, why, nfa=None):
        """token with language L (DFA); justify longest-prefix semantics"""
        alg = self.alg
        # prefix-free?  L & L.Sigma+ == {}
        pf = True
        for q in L.finals:
            if L.delta[q]:
                pf = False
                break
        if not pf and nfa is not None and not glushkov_deterministic(nfa):
            raise OutOfGrammarSubset('%s: neither prefix-free nor deterministic: CPython priority match may differ from the longest match' % why)
        return alg.from_language(L)

    def compile_root(self, g, marks=None, tags=None):
        """compile g; every Forward listed in `nest` met below it is the abstract nested-value letter (g itself is expanded)"""
        t = self.target(g)
        self._root = t.uid
        try:
            if t.uid in self.nest:
                return self._compile_checked(t, marks or {}, tags or {})
            return self.compile(g, marks, tags)
        finally:
            self._root = None

    def _compile_checked(self, g, marks, tags):
        self._stack.append(g.uid)
        try:
            s = self._compile(g, marks, tags)
        finally:
            self._stack.pop()
        if g.uid in marks:
            s = self.alg.wrap(s, marks[g.uid])
        return s

    def compile(self, g, marks=None, tags=None):
        """marks: {uid: name} wrap that node's extent in <name ... >name; tags: {uid of an Or: [mark per alternative]}"""
        marks = marks or {}
        tags = tags or {}
        key = (g.uid, self._dkey() if self.contains_nest(g) else None)
        plain = not marks and not (tags and (self.depth == self._tag_depth or self.tag_all_depths))
        if plain and key in self._memo:
            return self._memo[key]
        if g.skip_ws:
            raise OutOfGrammarSubset('element %r skips whitespace' % (g,))
        if g.uid in self._stack and self.depth is None:
            raise OutOfGrammarSubset('recursive grammar without nesting abstraction at %r' % (g,))
        self._stack.append(g.uid)
        try:
            s = self._compile(g, marks, tags)
        finally:
            self._stack.pop()
        if g.uid in marks:
            s = self.alg.wrap(s, marks[g.uid])
        if plain:
            self._memo[key] = s
        return s

    def _compile(self, g, marks, tags):
        alg = self.alg
        k = g.kind
        if k == 'regex':
            nfa = self._regex_nfa(g.pattern)
            return self._prim(self.lang(nfa), 'Regex(%r)' % g.pattern, nfa)
        if k == 'lit':
            return self._prim(self.lang(NA.lit(g.text)), 'Literal')
        if k == 'caseless':
            n = NA.concat(*[NA.cset(CS.of(c.lower(), c.upper())) for c in g.text])
            return self._prim(self.lang(n), 'CaselessLiteral')
        if k == 'word1':
            return self._prim(self.lang(NA.cset(CS([(ord(c), ord(c)) for c in g.chars]))), 'Word')
        if k == 'empty':
            return alg.empty()
        if k == 'end':
            return alg.end_of_input()
        if k == 'and':
            return alg.seq_all([self.compile(c, marks, tags) for c in g.children])
        if k == 'or':
            subs = [self.compile(c, marks, tags) for c in g.children]
            if g.uid in tags and (self.depth is None or self.depth == self._tag_depth or self.tag_all_depths):
                subs = [alg.prefix_mark(s, t) if t else s for s, t in zip(subs, tags[g.uid])]
            return alg.longest_all(subs)
        if k == 'first':
            subs = [self.compile(c, marks, tags) for c in g.children]
            out = subs[0]
            for s in subs[1:]:
                out = alg.first(out, s)
            return out
        if k == 'opt':
            return alg.optional(self.compile(g.children[0], marks, tags))
        if k in ('star', 'plus'):
            body = self.compile(g.children[0], marks, tags)
            if alg.nullable(body):
                raise OutOfGrammarSubset('repetition of a body that can succeed without consuming: %r' % (g,))
            return alg.star(body) if k == 'star' else alg.plus(body)
        if k == 'forward' and self.target(g).uid in self.nest and self.depth is not None:
            letter = self.nest[self.target(g).uid]
            if self._budget(letter) <= 0:
                # bottom of the unrolling: no nested value here (Cons empty, always fails)
                return marked.Sem(alg.empty_fail(), alg.all_strings())
            saved = self.depth
            self.depth = self._descend(letter)
            try:
                return self.compile(self.target(g), marks, tags)
            finally:
                self.depth = saved
        if k == 'forward' and self.target(g).uid in self.nest:
            letter = self.abstract_letter(self.nest[self.target(g).uid])
            L = marked.DFA()
            L.delta = [{letter: 1}, {}]
            L.finals = {1}
            return alg.from_language(L)
        if k in ('combine', 'suppress', 'group', 'pass', 'forward'):
            return self.compile(g.children[0], marks, tags)
        raise OutOfGrammarSubset('node kind %s' % k)


class CtxCompiler(Compiler):
    """grammars with implicit whitespace skipping and Keyword (hszinc.grid_filter): see hv/peg/ctx.py"""
    WS = CS.of(' ', '\t', '\n', '\r')

    def __init__(self, roots, extra_sets=(), nest=None, abstract=0):
        from . import ctx
        ident = None
        for r in roots:
            for g in walk(r):
                if g.kind == 'keyword':
                    cs = CS([(ord(c), ord(c)) for c in g.chars])
                    if ident is not None and ident != cs:
                        raise OutOfGrammarSubset('keywords with different identifier characters')
                    ident = cs
        ident = ident or CS()
        Compiler.__init__(self, roots, extra_sets=list(extra_sets) + [self.WS, ident], nest=nest, abstract=abstract)
        self.ident = ident
        self.alg = ctx.CtxAlgebra(self.nclasses, abstract, self.class_ids(ident) if ident else ())
        self._ws = None
        self._pre = True

    def _sets_of(self, g):
        if g.kind == 'keyword':
            return [CS.of(c) for c in g.text]
        return Compiler._sets_of(self, g)

    def ws_star(self):
        if self._ws is None:
            self._ws = self.alg.from_language(self.lang(NA.star(NA.cset(self.WS))))
        return self._ws

    def lang_ctx(self, nfa, kappa='N'):
        """a test language, at the start of the text (context: no identifier character before)"""
        d = self.lang(nfa)
        k = self.alg.KN if kappa == 'N' else self.alg.KI
        e = marked.DFA()
        e.delta = [dict(r) for r in d.delta] + [{k: d.start}]
        e.start = len(e.delta) - 1
        e.finals = set(d.finals)
        return marked.minimize(marked.trim(e))

    def compile(self, g, marks=None, tags=None, pre=True):
        marks = marks or {}
        tags = tags or {}
        key = (g.uid, self._dkey() if self.contains_nest(g) else None, bool(pre and g.skip_ws and g.call_pre))
        plain = not marks and not (tags and (self.depth == self._tag_depth or self.tag_all_depths))
        if plain and key in self._memo:
            return self._memo[key]
        if g.uid in self._stack and self.depth is None:
            raise OutOfGrammarSubset('recursive grammar without nesting abstraction at %r' % (g,))
        self._stack.append(g.uid)
        try:
            s = self._compile(g, marks, tags)
        finally:
            self._stack.pop()
        if g.uid in marks:
            s = self.alg.wrap(s, marks[g.uid])
        if pre and g.skip_ws and g.call_pre:
            s = self.alg.seq(self.ws_star(), s)
        if plain:
            self._memo[key] = s
        return s

    def _compile(self, g, marks, tags):
        alg = self.alg
        k = g.kind
        if k == 'keyword':
            return alg.keyword(self.lang(NA.lit(g.text)))
        if k == 'and':
            subs = [self.compile(c, marks, tags, pre=(i > 0)) for i, c in enumerate(g.children)]
            return alg.seq_all(subs)
        if k == 'or':
            subs = [self.compile(c, marks, tags, pre=True) for c in g.children]
            if g.uid in tags and (self.depth is None or self.depth == self._tag_depth or self.tag_all_depths):
                subs = [alg.prefix_mark(s, t) if t else s for s, t in zip(subs, tags[g.uid])]
            return alg.longest_all(subs)
        if k == 'first':
            subs = [self.compile(c, marks, tags, pre=True) for c in g.children]
            if g.uid in tags and (self.depth is None or self.depth == self._tag_depth or self.tag_all_depths):
                subs = [alg.prefix_mark(s, t) if t else s for s, t in zip(subs, tags[g.uid])]
            out = subs[0]
            for s in subs[1:]:
                out = alg.first(out, s)
            return out
        if k == 'opt':
            return alg.optional(self.compile(g.children[0], marks, tags, pre=False))
        if k in ('star', 'plus'):
            body = self.compile(g.children[0], marks, tags, pre=True)
            if alg.nullable(body):
                raise OutOfGrammarSubset('repetition of a body that can succeed without consuming: %r' % (g,))
            return alg.star(body) if k == 'star' else alg.plus(body)
        if k == 'forward' and self.target(g).uid in self.nest and self.depth is not None:
            letter = self.nest[self.target(g).uid]
            if self._budget(letter) <= 0:
                return marked.Sem(alg.empty_fail(), alg.all_strings())
            saved = self.depth
            self.depth = self._descend(letter)
            try:
                return self.compile(self.target(g), marks, tags, pre=False)
            finally:
                self.depth = saved
        if k in ('combine', 'suppress', 'group', 'pass', 'forward'):
            return self.compile(g.children[0], marks, tags, pre=False)
        if k in ('regex', 'lit', 'caseless', 'word1', 'empty', 'end'):
            return Compiler._compile(self, g, marks, tags)
        raise OutOfGrammarSubset('node kind %s' % k)

    def compile_depth(self, g, depth, marks=None, tags=None):
        saved = self.depth
        self.depth = depth
        self._tag_depth = depth
        try:
            return self.compile(self.target(g) if g.kind == 'forward' else g, marks, tags, pre=True)
        finally:
            self.depth = saved
