"""E3 core: exact semantics of (non-recursive) PEG expressions as *marked regular languages*.

For an expression e of a recursive-descent parser without memo side effects (pyparsing with whitespace skipping
off), the outcome on the remaining input x is a function of x: either "fails", or "consumes the prefix u".
    Cons(e) = { mu # v  :  e succeeds on uv consuming u }      (mu = u with token marks interleaved)
    Fail(e) = { x       :  e fails on x }
Both are regular for expressions built from regular primitives with sequence, longest-match choice (pyparsing Or:
every alternative is tried, the longest wins, ties go to the earliest), first-match choice, optional and the
possessive repetitions of recursive descent.  They are constructed here as deterministic automata by product
constructions (the component that already finished keeps reading the rest of the input as a *verifier*, because
its success may depend on look-ahead).  Marks are extra symbols; `#` is the end-of-consumption mark.

Symbols: ints = character classes of a fixed global partition of U+0000..U+10FFFF, plus abstract letters
(ints >= len(classes)) that no character set contains; strs = marks.
"""
import collections

END = '#'
U = 'U'      # canonical "accepts every continuation" verifier state


class DFA(object):
    """deterministic, partial (missing transition = dead/reject)."""

    def __init__(self):
        self.delta = []      # state -> {sym: state}
        self.finals = set()
        self.start = 0
        self._univ = None

    def size(self):
        return len(self.delta)

    def marks(self):
        return {s for row in self.delta for s in row if isinstance(s, str)}

    def universal(self, chars):
        """states from which every string over `chars` (no marks) is accepted"""
        if self._univ is not None and self._univ[0] == len(chars):
            return self._univ[1]
        good = set(q for q in self.finals if all(c in self.delta[q] for c in chars))
        changed = True
        while changed:
            changed = False
            for q in list(good):
                if any(self.delta[q][c] not in good for c in chars):
                    good.discard(q)
                    changed = True
        self._univ = (len(chars), good)
        return good


def build(starts, succ, is_final, limit=400000):
    """on-the-fly subset construction of a lazy NFA: succ(state) -> iterable of (sym | None, state)."""
    cache = {}

    def out(s):
        r = cache.get(s)
        if r is None:
            r = list(succ(s))
            cache[s] = r
        return r

    def closure(states):
        seen = set(states)
        stack = list(states)
        while stack:
            q = stack.pop()
            for sym, t in out(q):
                if sym is None and t not in seen:
                    seen.add(t)
                    stack.append(t)
        return frozenset(seen)
    d = DFA()
    s0 = closure(starts)
    ids = {s0: 0}
    d.delta.append({})
    work = collections.deque([s0])
    while work:
        S = work.popleft()
        nxt = collections.defaultdict(set)
        for q in S:
            for sym, t in out(q):
                if sym is not None:
                    nxt[sym].add(t)
        row = {}
        for sym, ts in nxt.items():
            T = closure(ts)
            if T not in ids:
                ids[T] = len(ids)
                d.delta.append({})
                work.append(T)
                if len(ids) > limit:
                    raise MemoryError('automaton exceeds %d states' % limit)
            row[sym] = ids[T]
        d.delta[ids[S]] = row
        if any(is_final(q) for q in S):
            d.finals.add(ids[S])
    return minimize(trim(d))


def trim(d):
    """drop states that cannot reach a final state"""
    rev = collections.defaultdict(set)
    for q, row in enumerate(d.delta):
        for sym, t in row.items():
            rev[t].add(q)
    live = set(d.finals)
    stack = list(d.finals)
    while stack:
        q = stack.pop()
        for p in rev[q]:
            if p not in live:
                live.add(p)
                stack.append(p)
    if d.start not in live:
        e = DFA()
        e.delta = [{}]
        return e
    order = [d.start]
    seen = {d.start}
    i = 0
    while i < len(order):
        q = order[i]
        i += 1
        for sym, t in sorted(d.delta[q].items(), key=lambda kv: str(kv[0])):
            if t in live and t not in seen:
                seen.add(t)
                order.append(t)
    idx = {q: i for i, q in enumerate(order)}
    e = DFA()
    e.delta = [{sym: idx[t] for sym, t in d.delta[q].items() if t in idx} for q in order]
    e.finals = {idx[q] for q in d.finals if q in idx}
    e.start = 0
    return e


def minimize(d):
    """Moore partition refinement on the trimmed partial DFA (dead state implicit)."""
    n = len(d.delta)
    if n <= 1:
        return d
    part = [1 if q in d.finals else 0 for q in range(n)]
    while True:
        sig = {}
        new = []
        for q in range(n):
            key = (part[q], tuple(sorted(((str(type(s)), s, part[t]) for s, t in d.delta[q].items()), key=lambda x: (x[0], x[1]))))
            if key not in sig:
                sig[key] = len(sig)
            new.append(sig[key])
        if len(sig) == len(set(part)):
            part = new
            break
        part = new
    k = len(set(part))
    if k == n:
        return d
    # renumber with the start state first
    rep = {}
    for q in range(n):
        rep.setdefault(part[q], q)
    order = [part[d.start]] + [p for p in sorted(rep) if p != part[d.start]]
    idx = {p: i for i, p in enumerate(order)}
    e = DFA()
    e.delta = [None] * k
    for p, q in rep.items():
        e.delta[idx[p]] = {s: idx[part[t]] for s, t in d.delta[q].items()}
    e.finals = {idx[part[q]] for q in d.finals}
    e.start = 0
    return trim(e)


# ---------------------------------------------------------------------------------------------------------------
class Sem(object):
    """(Cons, Fail) of one expression over a global alphabet."""

    def __init__(self, cons, fail):
        self.cons = cons
        self.fail = fail


class Algebra(object):
    def __init__(self, nclasses, nabstract=0):
        self.chars = tuple(range(nclasses + nabstract))      # consumable symbols (classes + abstract letters)
        self.nclasses = nclasses

    # ---- helpers
    def _is_char(self, s):
        return isinstance(s, int)

    def _step_set(self, d, S, c, univ):
        """advance a set of verifier states by char c; None if some verifier dies"""
        out = set()
        for p in S:
            t = d.delta[p].get(c)
            if t is None:
                return None
            if t not in univ:
                out.add(t)
        return frozenset(out)

    def empty_fail(self):
        d = DFA()
        d.delta = [{}]
        return d

    def all_strings(self):
        d = DFA()
        d.delta = [{c: 0 for c in self.chars}]
        d.finals = {0}
        return d

    # ---- primitives
    def from_language(self, L):
        """L: DFA over chars of a prefix-decidable token language; the primitive consumes the LONGEST prefix in L
        (regular-expression tokens whose priority match is the longest match; literals; single characters)."""
        def succ(s):
            kind, q = s
            if kind == 0:
                for c, t in L.delta[q].items():
                    yield c, (0, t)
                if q in L.finals:
                    yield END, (1, q)
            elif kind == 1:
                if q is U:
                    for c in self.chars:
                        yield c, (1, U)
                    return
                for c in self.chars:
                    t = L.delta[q].get(c)
                    if t is None:
                        yield c, (1, U)
                    elif t in L.finals:
                        continue
                    else:
                        yield c, (1, t)
        cons = build([(0, L.start)], succ, lambda s: s[0] == 1)

        def fsucc(s):
            if s is U:
                for c in self.chars:
                    yield c, U
                return
            for c in self.chars:
                t = L.delta[s].get(c)
                if t is None:
                    yield c, U
                elif t in L.finals:
                    continue
                else:
                    yield c, t
        if L.start in L.finals:
            fail = self.empty_fail()
        else:
            fail = build([L.start], fsucc, lambda s: True)
        return Sem(cons, fail)

    def empty(self):
        d = DFA()
        d.delta = [{END: 1}, {c: 1 for c in self.chars}]
        d.finals = {1}
        return Sem(d, self.empty_fail())

    def end_of_input(self):
        """StringEnd: succeeds (consuming nothing) only at the end of the input"""
        d = DFA()
        d.delta = [{END: 1}, {}]
        d.finals = {1}
        f = DFA()
        f.delta = [{c: 1 for c in self.chars}, {c: 1 for c in self.chars}]
        f.finals = {1}
        return Sem(d, f)

    # ---- marks
    def wrap(self, sem, name):
        """'<name' mu '>name' # v"""
        c = sem.cons
        d = DFA()
        n = len(c.delta)
        d.delta = [dict(row) for row in c.delta] + [{'<' + name: c.start}]
        d.start = n
        d.finals = set(c.finals)
        for q in range(n):
            if END in d.delta[q]:
                t = d.delta[q].pop(END)
                d.delta.append({END: t})
                d.delta[q]['>' + name] = len(d.delta) - 1
        return Sem(minimize(trim(d)), sem.fail)

    def prefix_mark(self, sem, name):
        c = sem.cons
        d = DFA()
        n = len(c.delta)
        d.delta = [dict(row) for row in c.delta] + [{name: c.start}]
        d.start = n
        d.finals = set(c.finals)
        return Sem(minimize(trim(d)), sem.fail)

    def erase(self, dfa, keep=(END,)):
        """erase all marks except `keep` (result deterministic again)"""
        def succ(q):
            for s, t in dfa.delta[q].items():
                if isinstance(s, str) and s not in keep:
                    yield None, t
                else:
                    yield s, t
        return build([dfa.start], succ, lambda q: q in dfa.finals)

    def strip(self, dfa):
        """underlying strings (all marks erased)"""
        return self.erase(dfa, keep=())

    # ---- sequence
    def seq(self, a, b):
        A, B = a.cons, b.cons
        uA = A.universal(self.chars)

        def succ(s):
            ph = s[0]
            if ph == 1:
                q = s[1]
                for sym, t in A.delta[q].items():
                    if sym == END:
                        yield None, (2, (U if t in uA else t), B.start)
                    else:
                        yield sym, (1, t)
            else:
                p, q = s[1], s[2]
                for sym, t in B.delta[q].items():
                    if isinstance(sym, int):
                        if p is U:
                            yield sym, (ph, U, t)
                        else:
                            pt = A.delta[p].get(sym)
                            if pt is not None:
                                yield sym, (ph, (U if pt in uA else pt), t)
                    elif sym == END:
                        if ph == 2:
                            yield END, (3, p, t)
                    elif ph == 2:
                        yield sym, (2, p, t)
        cons = build([(1, A.start)], succ, lambda s: s[0] == 3 and (s[1] is U or s[1] in A.finals) and s[2] in B.finals)
        Fa, Fb = a.fail, b.fail

        def fsucc(s):
            ph = s[0]
            if ph == 0:
                for sym, t in Fa.delta[s[1]].items():
                    yield sym, (0, t)
            elif ph == 1:
                q = s[1]
                for sym, t in A.delta[q].items():
                    if sym == END:
                        yield None, (2, (U if t in uA else t), Fb.start)
                    elif isinstance(sym, str):
                        yield None, (1, t)
                    else:
                        yield sym, (1, t)
            else:
                p, f = s[1], s[2]
                for sym, t in Fb.delta[f].items():
                    if p is U:
                        yield sym, (2, U, t)
                    else:
                        pt = A.delta[p].get(sym)
                        if pt is not None:
                            yield sym, (2, (U if pt in uA else pt), t)
        fail = build([(0, Fa.start), (1, A.start)], fsucc,
                     lambda s: (s[0] == 0 and s[1] in Fa.finals) or (s[0] == 2 and (s[1] is U or s[1] in A.finals) and s[2] in Fb.finals))
        return Sem(cons, fail)

    def seq_all(self, sems):
        out = sems[0]
        for s in sems[1:]:
            out = self.seq(out, s)
        return out

    # ---- choices
    def _intersect(self, X, Y):
        def succ(s):
            for sym, t in X.delta[s[0]].items():
                u = Y.delta[s[1]].get(sym)
                if u is not None:
                    yield sym, (t, u)
        return build([(X.start, Y.start)], succ, lambda s: s[0] in X.finals and s[1] in Y.finals)

    def _union(self, dfas):
        def succ(s):
            i, q = s
            for sym, t in dfas[i].delta[q].items():
                yield sym, (i, t)
        return build([(i, d.start) for i, d in enumerate(dfas)], succ, lambda s: s[1] in dfas[s[0]].finals)

    def _wins(self, W, Wf_other, other_cons, tie_ok):
        """words of W (marked) whose underlying string makes `other` fail, or consume less (<= if tie_ok) than W does"""
        O = self.erase(other_cons)          # other's extent only
        uO = O.universal(self.chars)
        F = Wf_other

        def succ(s):
            kind = s[0]
            if kind == 'a':        # other fails
                q, f = s[1], s[2]
                for sym, t in W.delta[q].items():
                    if isinstance(sym, int):
                        ft = F.delta[f].get(sym)
                        if ft is not None:
                            yield sym, ('a', t, ft)
                    else:
                        yield sym, ('a', t, f)
            else:                   # other consumes: ('b', q, o, seen, gap, done)
                q, o, seen, gap, done = s[1], s[2], s[3], s[4], s[5]
                if not seen and not done and o is not U and END in O.delta[o]:
                    t = O.delta[o][END]
                    yield None, ('b', q, (U if t in uO else t), True, False, False)
                for sym, t in W.delta[q].items():
                    if isinstance(sym, int):
                        if o is U:
                            ot = U
                        else:
                            ot = O.delta[o].get(sym)
                            if ot is None:
                                continue
                            if ot in uO and seen:
                                ot = U
                        yield sym, ('b', t, ot, seen, (gap or (seen and not done)), done)
                    elif sym == END:
                        if seen and (tie_ok or gap):
                            yield END, ('b', t, o, True, gap, True)
                    else:
                        yield sym, ('b', t, o, seen, gap, done)

        def fin(s):
            if s[0] == 'a':
                return s[1] in W.finals and s[2] in F.finals
            return s[5] and s[1] in W.finals and (s[2] is U or s[2] in O.finals)
        return build([('a', W.start, F.start), ('b', W.start, O.start, False, False, False)], succ, fin)

    def longest(self, a, b):
        """pyparsing Or of two: the longer consumption wins, a on ties"""
        c1 = self._wins(a.cons, b.fail, b.cons, tie_ok=True)
        c2 = self._wins(b.cons, a.fail, a.cons, tie_ok=False)
        return Sem(self._union([c1, c2]), self._intersect(a.fail, b.fail))

    def longest_all(self, sems):
        out = sems[0]
        for s in sems[1:]:
            out = self.longest(out, s)
        return out

    def first(self, a, b):
        """MatchFirst of two"""
        B, Fa = b.cons, a.fail

        def succ(s):
            q, f = s
            for sym, t in B.delta[q].items():
                if isinstance(sym, int):
                    ft = Fa.delta[f].get(sym)
                    if ft is not None:
                        yield sym, (t, ft)
                else:
                    yield sym, (t, f)
        c2 = build([(B.start, Fa.start)], succ, lambda s: s[0] in B.finals and s[1] in Fa.finals)
        return Sem(self._union([a.cons, c2]), self._intersect(a.fail, b.fail))

    def optional(self, a):
        F = a.fail

        def succ(s):
            if s[0] == 0:
                yield END, (1, F.start)
            else:
                for sym, t in F.delta[s[1]].items():
                    yield sym, (1, t)
        c2 = build([(0, None)], succ, lambda s: s[0] == 1 and s[1] in F.finals)
        return Sem(self._union([a.cons, c2]), self.empty_fail())

    # ---- repetition (possessive: repeat until the body fails)
    def nullable(self, a):
        """can the body succeed consuming nothing (a recursive-descent repetition of it would not terminate)?"""
        s = self.strip_keep_end(a.cons)
        return END in s.delta[s.start]

    def strip_keep_end(self, dfa):
        return self.erase(dfa, keep=(END,))

    def star(self, a):
        A, F = a.cons, a.fail
        uA = A.universal(self.chars)

        def succ(s):
            if s[0] == 's':
                q, S, fresh = s[1], s[2], s[3]
                for sym, t in A.delta[q].items():
                    if isinstance(sym, int):
                        S2 = self._step_set(A, S, sym, uA)
                        if S2 is not None:
                            yield sym, ('s', t, S2, False)
                    elif sym == END:
                        if not fresh:
                            yield None, ('s', A.start, (S if t in uA else S | {t}), True)
                    else:
                        yield sym, ('s', t, S, fresh)
                if fresh:
                    yield END, ('e', F.start, S)
            else:
                f, S = s[1], s[2]
                for sym, t in F.delta[f].items():
                    S2 = self._step_set(A, S, sym, uA)
                    if S2 is not None:
                        yield sym, ('e', t, S2)
        cons = build([('s', A.start, frozenset(), True)], succ,
                     lambda s: s[0] == 'e' and s[1] in F.finals and all(p in A.finals for p in s[2]))
        return Sem(cons, self.empty_fail())

    def plus(self, a):
        return self.seq(a, self.star(a))

    # ---- decision procedures
    def included(self, X, Y):
        """L(X) subset of L(Y)?  -> (True, None) | (False, witness symbol list)"""
        start = (X.start, Y.start)
        prev = {start: None}
        dq = collections.deque([start])
        while dq:
            st = dq.popleft()
            x, y = st
            if x in X.finals and (y is None or y not in Y.finals):
                out = []
                cur = st
                while prev[cur] is not None:
                    cur, sym = prev[cur]
                    out.append(sym)
                out.reverse()
                return False, out
            for sym, t in sorted(X.delta[x].items(), key=lambda kv: (isinstance(kv[0], str), kv[0] if isinstance(kv[0], str) else kv[0])):
                u = None if y is None else Y.delta[y].get(sym)
                nx = (t, u)
                if nx not in prev:
                    prev[nx] = (st, sym)
                    dq.append(nx)
        return True, None

    def is_empty(self, X):
        if X.finals:
            # trimmed automata have no useless states
            return False, self.shortest(X)
        return True, None

    def shortest(self, X):
        prev = {X.start: None}
        dq = collections.deque([X.start])
        while dq:
            q = dq.popleft()
            if q in X.finals:
                out = []
                cur = q
                while prev[cur] is not None:
                    cur, sym = prev[cur]
                    out.append(sym)
                out.reverse()
                return out
            for sym, t in X.delta[q].items():
                if t not in prev:
                    prev[t] = (q, sym)
                    dq.append(t)
        return None

    def complement_marked(self, X, marks):
        """complement w.r.t. all words over chars and the given marks"""
        syms = list(self.chars) + list(marks)

        def succ(s):
            for c in syms:
                if s is None:
                    yield c, None
                else:
                    yield c, X.delta[s].get(c)
        return build([X.start], succ, lambda s: s is None or s not in X.finals)

    def complement_chars(self, X):
        """complement w.r.t. all strings over chars (X must be mark-free)"""
        def succ(s):
            for c in self.chars:
                if s is None:
                    yield c, None
                else:
                    yield c, X.delta[s].get(c)
        return build([X.start], succ, lambda s: s is None or s not in X.finals)


def select_mark(dfa, mark):
    """words of dfa that contain `mark`"""
    def succ(s):
        q, seen = s
        for sym, t in dfa.delta[q].items():
            yield sym, (t, seen or sym == mark)
    return build([(dfa.start, False)], succ, lambda s: s[1] and s[0] in dfa.finals)


def check_function(alg, sem):
    """the compiled semantics must be a total function of the input: every string either fails or has exactly one
    consumed extent.  -> list of (what, witness symbols)"""
    bad = []
    C = alg.strip_keep_end(sem.cons)
    S = alg.strip(sem.cons)
    F = sem.fail
    # disjoint
    I = alg._intersect(S, F)
    if I.finals:
        bad.append(('both fails and succeeds', alg.shortest(I)))
    # total
    U_ = alg._union([S, F])
    comp = alg.complement_chars(U_)
    if comp.finals:
        bad.append(('neither fails nor succeeds', alg.shortest(comp)))
    # unique extent: two runs of C on the same string with END at different positions

    def succ(s):
        a, b, ph = s        # ph 0: neither END seen; 1: a's END seen, b's not; 2: both
        ra, rb = C.delta[a], C.delta[b]
        if ph == 0:
            if END in ra:
                yield None, (ra[END], b, 1)
        if ph == 1:
            if END in rb:
                yield None, (a, rb[END], 2)
        for sym, t in ra.items():
            if isinstance(sym, int) and sym in rb:
                yield sym, (t, rb[sym], (3 if ph == 1 else ph))
        if ph == 3 and END in rb:
            yield None, (a, rb[END], 2)
    # ph 1 -> 3 after at least one char (so the two END positions differ)
    D = build([(C.start, C.start, 0)], succ, lambda s: s[2] == 2 and s[0] in C.finals and s[1] in C.finals)
    if D.finals:
        # ph==2 reached only via 3 (distinct positions) or directly from 1 (same position): exclude the same-position case

        def succ2(s):
            a, b, ph = s
            ra, rb = C.delta[a], C.delta[b]
            if ph == 0 and END in ra:
                yield None, (ra[END], b, 1)
            for sym, t in ra.items():
                if isinstance(sym, int) and sym in rb:
                    yield sym, (t, rb[sym], (3 if ph in (1, 3) else ph))
            if ph == 3 and END in rb:
                yield None, (a, rb[END], 2)
        D2 = build([(C.start, C.start, 0)], succ2, lambda s: s[2] == 2 and s[0] in C.finals and s[1] in C.finals)
        if D2.finals:
            bad.append(('two different extents', alg.shortest(D2)))
    return bad
