#!/bin/sh
# Build the overlay venv (offline) the verifier runs in: /venv's python 3.12 + z3/cvc5/jsonschema wheels,
# plus a .pth that makes /venv's site-packages (pyparsing, six, pytz, iso8601, pint) importable.
set -e
cd "$(dirname "$0")"
V=.venv312
if [ ! -x "$V/bin/python" ] || ! "$V/bin/python" -c 'import z3, cvc5, jsonschema, pyparsing, six' 2>/dev/null; then
  rm -rf "$V"
  /venv/bin/python -m venv "$V"
  PIP_NO_INDEX=1 "$V/bin/pip" install -q --no-index --find-links /opt/veriftools/wheels z3-solver cvc5 jsonschema crosshair-tool deal >/dev/null
  SP=$("$V/bin/python" -c 'import sysconfig; print(sysconfig.get_paths()["purelib"])')
  echo "import site; site.addsitedir('/venv/lib/python3.12/site-packages')" > "$SP/zz_repo_deps.pth"
fi
"$V/bin/python" -c 'import z3, cvc5, jsonschema, pyparsing, six, pytz, iso8601; print("setup ok: z3", z3.get_version_string())'
